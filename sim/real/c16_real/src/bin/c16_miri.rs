//! C16 Engine B: the same scenario as the shuttle engine, but with std threads, the real
//! lazy_static crate and the real std::sync::Once, meant to be run under Miri
//! (`-Zmiri-seed=N` / `-Zmiri-many-seeds`), whose seeded scheduler can preempt at every basic
//! block and whose data-race and deadlock detectors watch the library. Also runs natively.
//!
//! usage: c16_miri <session-json>
//!   session = {"workloads":[W...], "expected": {"<abstract key hex>": "<outcome line>", ...}}
//! Prints `C16-OK ...` and exits 0, or `C16-MISMATCH {...}` and exits 1.
#[path = "../../../../common/c16_calls.rs"]
mod calls;
#[path = "../../../../common/c16_scenario.rs"]
mod scenario;

mod thr {
    pub use std::thread::{spawn, JoinHandle};
    pub fn pause() {
        std::thread::yield_now();
    }
}

use simcore::c16::*;
use std::sync::Arc;

fn key_hex(ac: &AbstractCall) -> String {
    format!("{}.{}.{}.{}", ac.profile, ac.kind, simcore::hex(ac.a.as_bytes()), simcore::hex(ac.b.as_bytes()))
}

fn main() {
    let args: Vec<String> = std::env::args().collect();
    let v: serde_json::Value = match args.get(1).and_then(|s| serde_json::from_str(s).ok()) {
        Some(v) => v,
        None => {
            eprintln!("HARNESS: bad session argument");
            std::process::exit(2);
        }
    };
    std::panic::set_hook(Box::new(|info| {
        let lib = info.location().map(|l| l.file().contains("precis-") || l.file().contains("unicode-normalization")).unwrap_or(false);
        if !lib {
            eprintln!("{}", info);
        }
    }));
    let mut oracle = Oracle::default();
    let expected = v.get("expected").and_then(|x| x.as_object()).cloned().unwrap_or_default();
    let mut nev = 0usize;
    let mut h = 0u64;
    let mut overlaps = 0u64;
    for (wi, wj) in v.get("workloads").and_then(|x| x.as_array()).cloned().unwrap_or_default().iter().enumerate() {
        let w = match Workload::from_json(wj) {
            Some(w) => Arc::new(w),
            None => {
                eprintln!("HARNESS: bad workload");
                std::process::exit(2);
            }
        };
        let events = scenario::run_execution(w.clone());
        nev += events.len();
        h = simcore::hash_combine(h, interleaving_hash(&events));
        overlaps += analyse(&events).overlapping_pairs;
        for e in &events {
            let ac = AbstractCall::of(&w, &e.call);
            if let Some(exp) = expected.get(&key_hex(&ac)).and_then(|x| x.as_str()) {
                if exp != e.outcome.to_line() {
                    println!("C16-MISMATCH {}", serde_json::json!({
                        "kind": "outcome_depends_on_more_than_the_arguments",
                        "abstract_call": ac.to_json(),
                        "first": {"outcome": Outcome::from_line(exp).map(|o| o.to_json()), "coordinates": {"origin": "cold start: only call of a fresh process"}},
                        "second": {"outcome": e.outcome.to_json(), "coordinates": coord_json(&format!("miri workload {}", wi), e, w.threads.len())},
                    }));
                    std::process::exit(1);
                }
            }
            let n = w.threads.len();
            if let Err(m) = oracle.observe(ac, &e.outcome, || coord_json(&format!("miri workload {}", wi), e, n)) {
                println!("C16-MISMATCH {}", m.to_json());
                std::process::exit(1);
            }
        }
    }
    println!("C16-OK events={} overlapping_pairs={} interleaving={:016x}", nev, overlaps, h);
}
