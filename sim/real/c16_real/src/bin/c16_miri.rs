//! C16 Engine B: the same scenario as the shuttle engine, but with std threads, the real
//! lazy_static crate and the real std::sync::Once, meant to be run under Miri
//! (`-Zmiri-seed=N` / `-Zmiri-many-seeds`), whose seeded scheduler can preempt at every basic
//! block and whose data-race and deadlock detectors watch the library. Also runs natively.
//!
//! usage: c16_miri <session-json>
//!   session = {"workloads":[W...], "expected": {"<abstract key hex>": "<outcome line>", ...}}
//! Prints `C16-OK ...` and exits 0, or `C16-MISMATCH {...}` and exits 1.
#[path = "../../../../common/c16_calls.rs"]
mod calls;
#[path = "../../../../common/c16_scenario.rs"]
mod scenario;

mod thr {
    pub use std::thread::{spawn, JoinHandle};
    pub fn pause() {
        std::thread::yield_now();
    }
}

use simcore::c16::*;
use std::sync::Arc;

fn key_hex(ac: &AbstractCall) -> String {
    format!("{}.{}.{}.{}", ac.profile, ac.kind, simcore::hex(ac.a.as_bytes()), simcore::hex(ac.b.as_bytes()))
}

/// (native only) `c16_miri --gen <seed> <index>`: prints a small session for the Miri engine —
/// 1-2 workloads with >= 2 threads, short call lists, the static API form prominent — and the
/// distinct abstract calls it contains, so that the driver can obtain cold-start references.
fn gen_session(seed: u64, idx: u64) {
    let mut rng = simcore::Rng::derive(seed, idx, 1600);
    let cfg = GenCfg { max_threads: 4, max_calls: 3, long_inputs: false };
    let mut ws = vec![];
    // three of four sessions are "phased" (all threads first-use the same feature at the same
    // moment, several features per session); the rest are free-form like the shuttle workloads
    if idx % 4 != 3 {
        let n = 1 + rng.usize_below(2);
        for _ in 0..n {
            let nthreads = 2 + rng.usize_below(3);
            let phases = 3 + rng.usize_below(4);
            ws.push(gen_phased_workload(&mut rng, nthreads, phases));
        }
    }
    let n = if ws.is_empty() { 1 + rng.usize_below(2) } else { 0 };
    while ws.len() < n {
        let mut w = gen_workload(&mut rng, &cfg);
        if w.threads.len() < 2 || w.ncalls() < 2 {
            continue;
        }
        // every thread starts at once and the static form dominates: first use is contended
        for t in &mut w.threads {
            if rng.chance(3, 4) {
                t.after = 0;
                t.parent = 0;
            }
            for c in &mut t.calls {
                if rng.chance(2, 3) {
                    c.api = 0;
                }
            }
        }
        // keep Miri's interpretation cost bounded: short inputs only
        if w.pool.iter().any(|s| s.len() > 48) {
            continue;
        }
        ws.push(w);
    }
    let mut calls = std::collections::BTreeMap::new();
    for w in &ws {
        for t in &w.threads {
            for c in &t.calls {
                let ac = AbstractCall::of(w, c);
                calls.insert(key_hex(&ac), serde_json::json!([ac.profile, ac.kind, simcore::hex(ac.a.as_bytes()), simcore::hex(ac.b.as_bytes())]));
            }
        }
    }
    println!("{}", serde_json::json!({
        "workloads": ws.iter().map(|w| serde_json::from_str::<serde_json::Value>(&w.to_arg()).unwrap()).collect::<Vec<_>>(),
        "abstract_calls": calls,
        "threads": ws.iter().map(|w| w.threads.len()).collect::<Vec<_>>(),
        "calls": ws.iter().map(|w| w.ncalls()).sum::<usize>(),
    }));
}

/// (native only) `c16_miri --probes <seed> <n>`: a broad probe list for environment sweeps —
/// every literal and strings of every token class (short and long) on all profiles.
fn gen_probes(seed: u64, n: usize) {
    let mut rng = simcore::Rng::derive(seed, 0, 1818);
    let mut w = gen_soak_workload(&mut rng, 0, 4, false);
    // plus long strings (many tokens) of every class mix
    let all: Vec<usize> = (0..17).collect();
    for _ in 0..96 {
        let mut s = String::new();
        for _ in 0..2 + rng.usize_below(4) {
            s.push_str(&gen_string(&mut rng, &all));
        }
        w.pool.push(s);
    }
    // every probe input through every profile and every operation (compare: with itself and with
    // another input), static and fresh-instance form alternating
    for extra in ["Iris", "IRIS", "I", "i", "TITLE", "Istanbul", "\u{130}stanbul", "DIYARBAKIR", "MIXED Case I", "\u{3a3}\u{399}\u{3a3}"] {
        w.pool.push(extra.to_string());
    }
    let mut lines = vec![];
    let mut flip = 0u8;
    for a in 0..w.pool.len() {
        for profile in 0..4u8 {
            for kind in 0..3u8 {
                let b = if kind == 2 && rng.chance(1, 2) { rng.usize_below(w.pool.len()) } else { a };
                flip ^= 1;
                lines.push(format!("{} {} {} 0 0 {} {}", profile, kind, flip, simcore::hex(w.pool[a].as_bytes()), if kind == 2 { simcore::hex(w.pool[b].as_bytes()) } else { String::new() }));
            }
        }
    }
    for l in lines.iter().take(n) {
        println!("{}", l);
    }
}

fn main() {
    let args: Vec<String> = std::env::args().collect();
    if args.get(1).map(|s| s.as_str()) == Some("--probes") {
        let seed = args.get(2).and_then(|x| x.parse().ok()).unwrap_or(0);
        let n = args.get(3).and_then(|x| x.parse().ok()).unwrap_or(2000);
        gen_probes(seed, n);
        return;
    }
    if args.get(1).map(|s| s.as_str()) == Some("--gen") {
        let seed = args.get(2).and_then(|x| x.parse().ok()).unwrap_or(0);
        let idx = args.get(3).and_then(|x| x.parse().ok()).unwrap_or(0);
        gen_session(seed, idx);
        return;
    }
    let v: serde_json::Value = match args.get(1).and_then(|s| serde_json::from_str(s).ok()) {
        Some(v) => v,
        None => {
            eprintln!("HARNESS: bad session argument");
            std::process::exit(2);
        }
    };
    std::panic::set_hook(Box::new(|info| {
        let lib = info.location().map(|l| l.file().contains("precis-") || l.file().contains("unicode-normalization")).unwrap_or(false);
        if !lib {
            eprintln!("{}", info);
        }
    }));
    let mut oracle = Oracle::default();
    let expected = v.get("expected").and_then(|x| x.as_object()).cloned().unwrap_or_default();
    let mut nev = 0usize;
    let mut h = 0u64;
    let mut overlaps = 0u64;
    for (wi, wj) in v.get("workloads").and_then(|x| x.as_array()).cloned().unwrap_or_default().iter().enumerate() {
        let w = match Workload::from_json(wj) {
            Some(w) => Arc::new(w),
            None => {
                eprintln!("HARNESS: bad workload");
                std::process::exit(2);
            }
        };
        let events = scenario::run_execution(w.clone());
        nev += events.len();
        h = simcore::hash_combine(h, interleaving_hash(&events));
        overlaps += analyse(&events).overlapping_pairs;
        for e in &events {
            let ac = AbstractCall::of(&w, &e.call);
            if let Some(exp) = expected.get(&key_hex(&ac)).and_then(|x| x.as_str()) {
                if exp != e.outcome.to_line() {
                    println!("C16-MISMATCH {}", serde_json::json!({
                        "kind": "outcome_depends_on_more_than_the_arguments",
                        "abstract_call": ac.to_json(),
                        "first": {"outcome": Outcome::from_line(exp).map(|o| o.to_json()), "coordinates": {"origin": "cold start: only call of a fresh process"}},
                        "second": {"outcome": e.outcome.to_json(), "coordinates": coord_json(&format!("miri workload {}", wi), e, w.threads.len())},
                    }));
                    std::process::exit(1);
                }
            }
            let n = w.threads.len();
            if let Err(m) = oracle.observe(ac, &e.outcome, || coord_json(&format!("miri workload {}", wi), e, n)) {
                println!("C16-MISMATCH {}", m.to_json());
                std::process::exit(1);
            }
        }
    }
    println!("C16-OK events={} overlapping_pairs={} interleaving={:016x}", nev, overlaps, h);
}
