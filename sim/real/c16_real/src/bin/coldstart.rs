//! Cold-start reference for C16: exactly one library call in a fresh OS process linked against
//! the unmodified crates (real lazy_static, no scheduler, no history, no other thread).
//! usage: coldstart <profile> <kind> <api> <fa> <fb> <a_hex> <b_hex>   -> one outcome line
#[path = "../../../../common/c16_calls.rs"]
mod calls;

use simcore::c16::{Call, ThreadPlan, Workload};

/// `coldstart --batch FILE`: one process, many calls (one per line: profile kind api fa fb a_hex
/// b_hex), one outcome line each. Used to compare the same batch under different process
/// environments (the environment is constant within a process, so batching loses nothing there).
fn batch(path: &str) {
    let text = std::fs::read_to_string(path).unwrap_or_default();
    std::panic::set_hook(Box::new(|_| {}));
    let inst = calls::Instances::create();
    let mut out = String::new();
    for line in text.lines() {
        let f: Vec<&str> = line.split(' ').collect();
        if f.len() < 6 {
            continue;
        }
        let n = |i: usize| f[i].parse::<u8>().unwrap_or(255);
        let sa = simcore::unhex(f[5]).and_then(|b| String::from_utf8(b).ok());
        let sb = simcore::unhex(f.get(6).copied().unwrap_or("")).and_then(|b| String::from_utf8(b).ok());
        let (sa, sb) = match (sa, sb) {
            (Some(x), Some(y)) => (x, y),
            _ => {
                out.push_str("?\n");
                continue;
            }
        };
        let call = Call { profile: n(0), kind: n(1), api: n(2), fa: n(3), fb: n(4), a: 0, b: 1 };
        let w = Workload { pool: vec![sa, sb], threads: vec![ThreadPlan { parent: 0, after: 0, calls: vec![call.clone()] }] };
        if !w.valid() {
            out.push_str("?\n");
            continue;
        }
        out.push_str(&calls::do_call(&w, &call, &inst, &inst).to_line());
        out.push('\n');
    }
    print!("{}", out);
}

fn main() {
    let a: Vec<String> = std::env::args().collect();
    if a.len() == 3 && a[1] == "--batch" {
        batch(&a[2]);
        return;
    }
    if a.len() != 8 {
        eprintln!("usage: coldstart profile kind api fa fb a_hex b_hex");
        std::process::exit(2);
    }
    let n = |i: usize| a[i].parse::<u8>().unwrap_or(255);
    let s = |i: usize| simcore::unhex(&a[i]).and_then(|b| String::from_utf8(b).ok());
    let (sa, sb) = match (s(6), s(7)) {
        (Some(x), Some(y)) => (x, y),
        _ => std::process::exit(2),
    };
    let call = Call { profile: n(1), kind: n(2), api: n(3), fa: n(4), fb: n(5), a: 0, b: 1 };
    let w = Workload { pool: vec![sa, sb], threads: vec![ThreadPlan { parent: 0, after: 0, calls: vec![call.clone()] }] };
    if !w.valid() {
        std::process::exit(2);
    }
    std::panic::set_hook(Box::new(|_| {}));
    let inst = calls::Instances::create();
    let out = calls::do_call(&w, &call, &inst, &inst);
    println!("{}", out.to_line());
}
