//! The simulated `io::Read`: owns the file bytes, decides every delivery from the run's PRNG
//! (or from an explicit recorded trace), injects EINTR, hard errors and early EOF, and records
//! exactly what it did so that a case replays from its trace alone.

use serde_json::{json, Value};
use simcore::Rng;
use std::cell::RefCell;
use std::io;
use std::rc::Rc;

#[derive(Clone, Debug, PartialEq, Eq)]
pub enum Dec {
    Deliver(usize),
    Eintr,
    Hard(u8),
    Eof,
}

pub const HARD_KINDS: [&str; 7] = ["Other", "UnexpectedEof", "TimedOut", "BrokenPipe", "WouldBlock", "InvalidData", "ConnectionReset"];

fn hard_err(k: u8) -> io::Error {
    let kind = match k {
        0 => io::ErrorKind::Other,
        1 => io::ErrorKind::UnexpectedEof,
        2 => io::ErrorKind::TimedOut,
        3 => io::ErrorKind::BrokenPipe,
        4 => io::ErrorKind::WouldBlock,
        5 => io::ErrorKind::InvalidData,
        _ => io::ErrorKind::ConnectionReset,
    };
    io::Error::new(kind, "simulated read fault")
}

pub const MODES: [&str; 8] = ["one_byte", "small", "to_line_end", "line_end_plus_1", "split_multibyte", "split_crlf", "whole_buffer", "mixed"];

#[derive(Clone, Debug)]
pub struct GenScript {
    pub mode: u8,
    pub eintr_per_1000: u64,
    /// hard fault: (byte offset, kind, sticky)
    pub hard: Option<(usize, u8, bool)>,
}

#[derive(Default, Debug, Clone)]
pub struct ReadStats {
    pub reads: u64,
    pub short_reads: u64,
    pub eintr: u64,
    pub hard_errors: u64,
    pub split_in_char: u64,
    pub split_in_crlf: u64,
    pub split_inside_line: u64,
    pub eof_reads: u64,
    pub bytes: u64,
}

pub struct Shared {
    /// consecutive reads answered with "end of data": a consumer that keeps polling is not progressing
    pub eof_streak: u64,
    pub livelock: bool,
    pub trace: Vec<Dec>,
    pub stats: ReadStats,
    /// index of the consumer's `next()` call in progress (set by the consumer)
    pub cur_call: usize,
    /// call during which the first hard error was returned
    pub hard_fired_at_call: Option<usize>,
    pub pos: usize,
}

enum Script {
    Gen { rng: Rng, cfg: GenScript, consecutive_eintr: u32, hard_fired: bool },
    Replay { list: Vec<Dec>, idx: usize },
}

pub struct SimReader {
    data: Rc<Vec<u8>>,
    /// positions just after each LF, and of each CR that is followed by LF (sorted); with cursors
    line_ends: Vec<usize>,
    crlfs: Vec<usize>,
    le_cur: usize,
    cr_cur: usize,
    pos: usize,
    script: Script,
    pub shared: Rc<RefCell<Shared>>,
}

impl SimReader {
    pub fn generated(data: Rc<Vec<u8>>, rng: Rng, cfg: GenScript) -> (SimReader, Rc<RefCell<Shared>>) {
        let shared = Rc::new(RefCell::new(Shared { eof_streak: 0, livelock: false, trace: vec![], stats: ReadStats::default(), cur_call: 0, hard_fired_at_call: None, pos: 0 }));
        let (line_ends, crlfs) = index_lines(&data);
        (SimReader { data, line_ends, crlfs, le_cur: 0, cr_cur: 0, pos: 0, script: Script::Gen { rng, cfg, consecutive_eintr: 0, hard_fired: false }, shared: shared.clone() }, shared)
    }
    pub fn replaying(data: Rc<Vec<u8>>, list: Vec<Dec>) -> (SimReader, Rc<RefCell<Shared>>) {
        let shared = Rc::new(RefCell::new(Shared { eof_streak: 0, livelock: false, trace: vec![], stats: ReadStats::default(), cur_call: 0, hard_fired_at_call: None, pos: 0 }));
        let (line_ends, crlfs) = index_lines(&data);
        (SimReader { data, line_ends, crlfs, le_cur: 0, cr_cur: 0, pos: 0, script: Script::Replay { list, idx: 0 }, shared: shared.clone() }, shared)
    }

    /// distance from the current position to just after the next LF
    fn next_line_end(&mut self) -> Option<usize> {
        while self.le_cur < self.line_ends.len() && self.line_ends[self.le_cur] <= self.pos {
            self.le_cur += 1;
        }
        self.line_ends.get(self.le_cur).map(|e| e - self.pos)
    }

    /// distance to just after the next CR that is followed by LF
    fn next_crlf_split(&mut self) -> Option<usize> {
        while self.cr_cur < self.crlfs.len() && self.crlfs[self.cr_cur] < self.pos {
            self.cr_cur += 1;
        }
        self.crlfs.get(self.cr_cur).map(|c| c + 1 - self.pos)
    }

    fn choose(&mut self, buf_len: usize) -> Dec {
        let remaining = self.data.len() - self.pos;
        let to_line_end = self.next_line_end();
        let to_crlf = self.next_crlf_split();
        let data = self.data.clone();
        let pos = self.pos;
        match &mut self.script {
            Script::Replay { list, idx } => {
                let d = list.get(*idx).cloned().unwrap_or(Dec::Deliver(usize::MAX));
                *idx += 1;
                d
            }
            Script::Gen { rng, cfg, consecutive_eintr, hard_fired } => {
                if let Some((at, kind, sticky)) = cfg.hard {
                    if (*hard_fired && sticky) || (!*hard_fired && pos >= at) {
                        *hard_fired = true;
                        return Dec::Hard(kind);
                    }
                }
                if remaining == 0 {
                    return Dec::Eof;
                }
                if *consecutive_eintr < 3 && rng.below(1000) < cfg.eintr_per_1000 {
                    *consecutive_eintr += 1;
                    return Dec::Eintr;
                }
                *consecutive_eintr = 0;
                let mode = if cfg.mode == 7 { rng.below(7) as u8 } else { cfg.mode };
                let mut k = match mode {
                    0 => 1,
                    1 => 1 + rng.usize_below(7),
                    2 => to_line_end.unwrap_or(remaining),
                    3 => to_line_end.map(|x| x + 1).unwrap_or(remaining),
                    4 => {
                        // up to the middle of the next multi-byte character within reach
                        let win = &data[pos..(pos + 96).min(data.len())];
                        let conts: Vec<usize> = win.iter().enumerate().filter(|(_, b)| (**b & 0xC0) == 0x80).map(|(i, _)| i).collect();
                        if conts.is_empty() { 1 + rng.usize_below(7) } else { conts[rng.usize_below(conts.len())] }
                    }
                    5 => match to_crlf {
                        Some(i) if i > 0 => i,
                        _ => to_line_end.unwrap_or(remaining),
                    },
                    _ => buf_len,
                };
                if k == 0 {
                    k = 1;
                }
                if let Some((at, _, _)) = cfg.hard {
                    if !*hard_fired && at > pos {
                        k = k.min(at - pos);
                    }
                }
                Dec::Deliver(k)
            }
        }
    }
}

impl io::Read for SimReader {
    fn read(&mut self, buf: &mut [u8]) -> io::Result<usize> {
        let dec = self.choose(buf.len());
        let mut sh = self.shared.borrow_mut();
        sh.stats.reads += 1;
        match dec {
            Dec::Eintr => {
                sh.stats.eintr += 1;
                sh.trace.push(Dec::Eintr);
                Err(io::Error::new(io::ErrorKind::Interrupted, "simulated EINTR"))
            }
            Dec::Hard(k) => {
                sh.stats.hard_errors += 1;
                if sh.hard_fired_at_call.is_none() {
                    sh.hard_fired_at_call = Some(sh.cur_call);
                }
                sh.trace.push(Dec::Hard(k));
                Err(hard_err(k))
            }
            Dec::Eof => {
                sh.stats.eof_reads += 1;
                sh.eof_streak += 1;
                if sh.eof_streak > 5_000 {
                    // bounded liveness: once the data (and the faults) are over, next() must return
                    sh.livelock = true;
                    drop(sh);
                    panic!("VERIF: the parser polled the reader 5000 times after end of data without returning");
                }
                if sh.eof_streak < 64 {
                    sh.trace.push(Dec::Eof);
                }
                Ok(0)
            }
            Dec::Deliver(k) => {
                let remaining = self.data.len() - self.pos;
                let n = k.min(buf.len()).min(remaining);
                if n == 0 {
                    // empty caller buffer or end of data
                    if remaining == 0 {
                        sh.stats.eof_reads += 1;
                    }
                    sh.trace.push(Dec::Deliver(0));
                    return Ok(0);
                }
                buf[..n].copy_from_slice(&self.data[self.pos..self.pos + n]);
                sh.eof_streak = 0;
                self.pos += n;
                sh.pos = self.pos;
                sh.stats.bytes += n as u64;
                if n < buf.len() && n < remaining {
                    sh.stats.short_reads += 1;
                }
                if self.pos < self.data.len() {
                    let b = self.data[self.pos];
                    if (b & 0xC0) == 0x80 {
                        sh.stats.split_in_char += 1;
                    }
                    if b == b'\n' && self.data[self.pos - 1] == b'\r' {
                        sh.stats.split_in_crlf += 1;
                    }
                    if self.data[self.pos - 1] != b'\n' {
                        sh.stats.split_inside_line += 1;
                    }
                }
                sh.trace.push(Dec::Deliver(n));
                Ok(n)
            }
        }
    }
}

fn index_lines(data: &[u8]) -> (Vec<usize>, Vec<usize>) {
    let mut le = vec![];
    let mut cr = vec![];
    for (i, b) in data.iter().enumerate() {
        if *b == b'\n' {
            le.push(i + 1);
            if i > 0 && data[i - 1] == b'\r' {
                cr.push(i - 1);
            }
        }
    }
    (le, cr)
}

pub fn trace_to_json(t: &[Dec]) -> Value {
    // run-length friendly: numbers are deliveries, strings are faults
    Value::Array(
        t.iter()
            .map(|d| match d {
                Dec::Deliver(k) => json!(k),
                Dec::Eintr => json!("EINTR"),
                Dec::Hard(k) => json!(format!("HARD:{}", HARD_KINDS[*k as usize])),
                Dec::Eof => json!("EOF"),
            })
            .collect(),
    )
}

pub fn trace_from_json(v: &Value) -> Option<Vec<Dec>> {
    v.as_array()?
        .iter()
        .map(|x| {
            if let Some(k) = x.as_u64() {
                return Some(Dec::Deliver(k as usize));
            }
            match x.as_str()? {
                "EINTR" => Some(Dec::Eintr),
                "EOF" => Some(Dec::Eof),
                s => {
                    let k = HARD_KINDS.iter().position(|h| Some(*h) == s.strip_prefix("HARD:"))?;
                    Some(Dec::Hard(k as u8))
                }
            }
        })
        .collect()
}
