//! File model for the PRECIS registry CSV: structured rows that are *rendered* to text.
//! The oracle never parses text; expectations come from the structured values.

use serde_json::{json, Value};
use simcore::Rng;

pub const NAMES: [&str; 7] = ["PVALID", "FREE_PVAL", "CONTEXTJ", "CONTEXTO", "DISALLOWED", "ID_DIS", "UNASSIGNED"];

#[derive(Clone, Copy, Debug, PartialEq, Eq)]
pub enum Term {
    Lf,
    CrLf,
    None,
}

impl Term {
    pub fn s(self) -> &'static str {
        match self {
            Term::Lf => "\n",
            Term::CrLf => "\r\n",
            Term::None => "",
        }
    }
    pub fn name(self) -> &'static str {
        match self {
            Term::Lf => "lf",
            Term::CrLf => "crlf",
            Term::None => "none",
        }
    }
    pub fn from_name(s: &str) -> Option<Term> {
        match s {
            "lf" => Some(Term::Lf),
            "crlf" => Some(Term::CrLf),
            "none" => Some(Term::None),
            _ => None,
        }
    }
}

#[derive(Clone, Debug, PartialEq, Eq)]
pub struct Good {
    pub lo: u32,
    pub hi: Option<u32>,
    pub width: usize, // minimum number of hex digits (4..=6)
    pub p: u8,
    pub q: Option<u8>,
    pub desc: String,
}

impl Good {
    pub fn cps_text(&self) -> String {
        match self.hi {
            None => format!("{:0w$X}", self.lo, w = self.width),
            Some(h) => format!("{:0w$X}-{:0w$X}", self.lo, h, w = self.width),
        }
    }
    pub fn props_text(&self) -> String {
        match self.q {
            None => NAMES[self.p as usize].to_string(),
            Some(q) => format!("{} or {}", NAMES[self.p as usize], NAMES[q as usize]),
        }
    }
    pub fn text(&self) -> String {
        format!("{},{},{}", self.cps_text(), self.props_text(), self.desc)
    }
}

#[derive(Clone, Debug, PartialEq, Eq)]
pub enum Body {
    Good(Good),
    /// malformed row: `class` names the edit that produced it
    Bad { text: String, class: String },
}

#[derive(Clone, Debug, PartialEq, Eq)]
pub struct Line {
    pub body: Body,
    pub term: Term,
    /// stored-byte corruption: the byte at this offset of the line's text is 0xFF in the file
    /// (never valid UTF-8), as after a flipped bit / bad sector / wrong transcoding
    pub corrupt: Option<usize>,
}

/// One expected item: which physical line it is about, what must be delivered, and whether the
/// line may legitimately produce no item at all (only for corrupted lines).
#[derive(Clone, Debug, PartialEq, Eq)]
pub struct Entry {
    pub line: u64,
    pub exp: Expect,
    pub optional: bool,
    /// index into `rows` (None for the header)
    pub row: Option<usize>,
}

impl Line {
    pub fn text(&self) -> String {
        match &self.body {
            Body::Good(g) => g.text(),
            Body::Bad { text, .. } => text.clone(),
        }
    }
    pub fn class(&self) -> String {
        match &self.body {
            Body::Good(g) => format!("good_{}_{}", if g.hi.is_some() { "range" } else { "single" }, if g.q.is_some() { "two" } else { "one" }),
            Body::Bad { class, .. } => class.clone(),
        }
    }
}

/// What the iterator must deliver for one physical line.
#[derive(Clone, Debug, PartialEq, Eq)]
pub enum Expect {
    Rec { lo: u32, hi: Option<u32>, p: u8, q: Option<u8>, desc: String },
    Err,
    /// nothing is asserted (the property is silent about this shape)
    Any,
}

#[derive(Clone, Debug, PartialEq, Eq)]
pub struct FileModel {
    /// None = empty file (not even a header)
    pub header: Option<(String, Term)>,
    pub header_corrupt: Option<usize>,
    pub rows: Vec<Line>,
}

fn corrupted(text: &str, at: Option<usize>) -> Vec<u8> {
    let mut b = text.as_bytes().to_vec();
    if let Some(i) = at {
        if i < b.len() {
            b[i] = 0xFF;
        }
    }
    b
}

impl FileModel {
    pub fn bytes(&self) -> Vec<u8> {
        let mut v = Vec::new();
        if let Some((h, t)) = &self.header {
            v.extend_from_slice(&corrupted(h, self.header_corrupt));
            v.extend_from_slice(t.s().as_bytes());
        }
        for r in &self.rows {
            v.extend_from_slice(&corrupted(&r.text(), r.corrupt));
            v.extend_from_slice(r.term.s().as_bytes());
        }
        v
    }

    /// Only the last physical line may lack a terminator.
    pub fn normalise(&mut self) {
        let n = self.rows.len();
        if let Some((_, t)) = &mut self.header {
            if n > 0 && *t == Term::None {
                *t = Term::Lf;
            }
            if let Some(c) = self.header_corrupt {
                if c >= self.header.as_ref().unwrap().0.len() {
                    self.header_corrupt = None;
                }
            }
        } else {
            self.rows.clear();
            self.header_corrupt = None;
        }
        for (i, r) in self.rows.iter_mut().enumerate() {
            if let Some(c) = r.corrupt {
                if c >= r.text().len() {
                    r.corrupt = None;
                }
            }
            // an empty last line without a terminator is no line at all
            if r.term == Term::None && (i + 1 < n || r.text().is_empty()) {
                r.term = Term::Lf;
            }
        }
    }

    pub fn has_corruption(&self) -> bool {
        self.header_corrupt.is_some() || self.rows.iter().any(|r| r.corrupt.is_some())
    }

    pub fn expectations(&self) -> Vec<Entry> {
        let mut v = vec![];
        if self.header.is_some() && self.header_corrupt.is_some() {
            // an unreadable header may or may not be reported; it is still line 1 and still skipped
            v.push(Entry { line: 1, exp: Expect::Any, optional: true, row: None });
        }
        for (i, r) in self.rows.iter().enumerate() {
            let line = i as u64 + 2;
            if r.corrupt.is_some() {
                v.push(Entry { line, exp: Expect::Any, optional: true, row: Some(i) });
                continue;
            }
            let exp = match &r.body {
                Body::Good(g) => Expect::Rec { lo: g.lo, hi: g.hi, p: g.p, q: g.q, desc: g.desc.clone() },
                Body::Bad { .. } => Expect::Err,
            };
            v.push(Entry { line, exp, optional: false, row: Some(i) });
        }
        v
    }

    /// The file as it is after the writer crashed / the disk filled at byte `at`: the model of
    /// the truncated text, with the expectation of the cut row recomputed (DESIGN §5.4).
    /// Returns (expectations, cut_inside_multibyte_char).
    pub fn torn_expectations(&self, at: usize) -> (Vec<Expect>, bool) {
        let data = self.bytes();
        let at = at.min(data.len());
        let inside_char = at < data.len() && (data[at] & 0xC0) == 0x80;
        let mut out = vec![];
        let mut off = match &self.header {
            None => return (out, false),
            Some((h, t)) => h.len() + t.s().len(),
        };
        if at < off {
            if inside_char {
                // the header itself now ends in half a character: invalid UTF-8 is outside the
                // property's list of malformed rows, so whatever is delivered for it is not judged
                out.push(Expect::Any);
            }
            return (out, inside_char);
        }
        for r in &self.rows {
            let text = r.text();
            let end = off + text.len() + r.term.s().len();
            if at >= end {
                out.push(match &r.body {
                    Body::Good(g) => Expect::Rec { lo: g.lo, hi: g.hi, p: g.p, q: g.q, desc: g.desc.clone() },
                    Body::Bad { .. } => Expect::Err,
                });
                off = end;
                continue;
            }
            if at == off {
                break; // file ends exactly at a line boundary
            }
            let cut = (at - off).min(text.len());
            if inside_char {
                out.push(Expect::Any);
                break;
            }
            out.push(match &r.body {
                Body::Bad { .. } => Expect::Err,
                Body::Good(g) => {
                    let c2 = g.cps_text().len() + 1 + g.props_text().len();
                    if cut <= c2 {
                        Expect::Err
                    } else if cut == c2 + 1 {
                        Expect::Any // empty description: the property does not say
                    } else {
                        Expect::Rec { lo: g.lo, hi: g.hi, p: g.p, q: g.q, desc: g.desc[..cut - c2 - 1].to_string() }
                    }
                }
            });
            break;
        }
        (out, inside_char)
    }

    pub fn to_json(&self) -> Value {
        json!({
            "header": self.header.as_ref().map(|(h, t)| json!({"text": h, "term": t.name(), "corrupt_byte_at": self.header_corrupt})),
            "rows": self.rows.iter().map(|r| match &r.body {
                Body::Good(g) => json!({"good": {"lo": g.lo, "hi": g.hi, "width": g.width, "p": g.p, "q": g.q, "desc": g.desc}, "term": r.term.name(), "text": r.text(), "corrupt_byte_at": r.corrupt}),
                Body::Bad { text, class } => json!({"bad": {"text": text, "class": class}, "term": r.term.name(), "corrupt_byte_at": r.corrupt}),
            }).collect::<Vec<_>>(),
        })
    }

    pub fn from_json(v: &Value) -> Option<FileModel> {
        let header = match v.get("header")? {
            Value::Null => None,
            h => Some((h.get("text")?.as_str()?.to_string(), Term::from_name(h.get("term")?.as_str()?)?)),
        };
        let header_corrupt = v.get("header").and_then(|h| h.get("corrupt_byte_at")).and_then(|x| x.as_u64()).map(|x| x as usize);
        let mut rows = vec![];
        for r in v.get("rows")?.as_array()? {
            let term = Term::from_name(r.get("term")?.as_str()?)?;
            let body = if let Some(g) = r.get("good") {
                Body::Good(Good {
                    lo: g.get("lo")?.as_u64()? as u32,
                    hi: g.get("hi").and_then(|x| x.as_u64()).map(|x| x as u32),
                    width: g.get("width")?.as_u64()? as usize,
                    p: g.get("p")?.as_u64()? as u8,
                    q: g.get("q").and_then(|x| x.as_u64()).map(|x| x as u8),
                    desc: g.get("desc")?.as_str()?.to_string(),
                })
            } else {
                let b = r.get("bad")?;
                Body::Bad { text: b.get("text")?.as_str()?.to_string(), class: b.get("class")?.as_str()?.to_string() }
            };
            let corrupt = r.get("corrupt_byte_at").and_then(|x| x.as_u64()).map(|x| x as usize);
            rows.push(Line { body, term, corrupt });
        }
        let mut m = FileModel { header, header_corrupt, rows };
        m.normalise();
        Some(m)
    }
}

// ------------------------------------------------------------------ generation

#[derive(Clone, Debug)]
pub struct GenCfg {
    pub thorough: bool,
    /// stored-byte corruption: number of lines that get one 0xFF byte (strict configuration only)
    pub corrupt_lines: usize,
    pub rows: usize,
    pub bad_share: u64, // per 100
    pub term_style: u8, // 0 lf, 1 crlf, 2 mixed
    pub last_term_none: bool,
    pub desc_shapes: Vec<u8>,
    pub long_lines: bool,
}

const BOUNDARY_CPS: &[u32] = &[0, 1, 0x1F, 0x20, 0x41, 0x7F, 0x80, 0xFF, 0x100, 0x3FF, 0xFFF, 0x1000, 0xD7FF, 0xE000, 0xFFFD, 0xFFFE, 0xFFFF, 0x10000, 0x1FFFF, 0x20000, 0xE0000, 0xFFFFF, 0x100000, 0x10FFFD, 0x10FFFF];

fn gen_cp(rng: &mut Rng) -> u32 {
    loop {
        let c = match rng.below(4) {
            0 => *rng.pick(BOUNDARY_CPS),
            1 => rng.below(0x3000) as u32,
            2 => rng.below(0x110000) as u32,
            _ => {
                // values whose hex spelling uses letters/digits in every position
                let pat: [u32; 6] = [0xABCD, 0xFACE, 0xBEEF, 0xA0A0, 0x0A0B, 0x10ABC];
                *rng.pick(&pat)
            }
        };
        if !(0xD800..=0xDFFF).contains(&c) {
            return c;
        }
    }
}

const WORDS: &[&str] = &["LATIN", "CAPITAL", "LETTER", "A", "WITH", "GRAVE", "SPACE", "NULL", "CJK", "IDEOGRAPH", "DIGIT", "ZERO", "HANGUL", "SYLLABLE", "SIGN", "NO-BREAK", "<control>", "<reserved>", "..", "or", "PVALID", "0041", "First>", "<CJK"];
const MB: &[&str] = &["\u{e9}", "\u{df}", "\u{3a9}", "\u{5d0}", "\u{20ac}", "\u{3042}", "\u{4e2d}", "\u{ac00}", "\u{1f412}", "\u{10ffff}", "\u{a0}", "\u{2028}", "\u{2029}", "\u{85}", "\u{feff}", "\u{3000}"];

pub const DESC_SHAPES: [&str; 10] = ["words", "commas", "edge_spaces", "first_last", "multibyte", "one_byte", "contains_or", "long", "punct", "digits_hex"];

fn gen_desc(rng: &mut Rng, cfg: &GenCfg) -> String {
    let shape = *rng.pick(&cfg.desc_shapes);
    let words = |rng: &mut Rng, n: usize, sep: &str| -> String {
        (0..n).map(|_| *rng.pick(WORDS)).collect::<Vec<_>>().join(sep)
    };
    let mut d = match shape {
        0 => { let n = 1 + rng.usize_below(5); words(rng, n, " ") }
        1 => {
            let n = 2 + rng.usize_below(4);
            let sep = if rng.chance(1, 2) { ", " } else { "," };
            let w = words(rng, n, sep);
            // the separator at the very start, at the very end, doubled, or alone
            match rng.below(8) { 0 => format!(",{}", w), 1 => format!("{},", w), 2 => w.replacen(',', ",,", 1), 3 => ",".to_string(), 4 => ",,".to_string(), 5 => format!(" ,{}", w), _ => w }
        }
        2 => format!("{}{}{}", " ".repeat(rng.usize_below(3)), words(rng, 2, " "), " ".repeat(1 + rng.usize_below(3))),
        3 => { let w = *rng.pick(WORDS); format!("<{} Ideograph, First>..<{} Ideograph, Last>", w, w) }
        4 => {
            let n = 1 + rng.usize_below(6);
            (0..n).map(|_| if rng.chance(1, 2) { rng.pick(MB).to_string() } else { rng.pick(WORDS).to_string() }).collect::<Vec<_>>().join(if rng.chance(1, 2) { " " } else { "" })
        }
        5 => ((b'!' + rng.below(94) as u8) as char).to_string(),
        6 => format!("{} or {}", rng.pick(WORDS), NAMES[rng.usize_below(7)]),
        7 => {
            // Line-length thresholds in real code are powers of two (BufReader's 8 KiB, a 64 KiB
            // cap, a 1 MiB limit): aim at 2^k, and let gen_good trim the line to land exactly on
            // 2^k - 1, 2^k, 2^k + 1 half of the time.
            let target = if cfg.long_lines {
                // up to 128 KiB normally; now and then beyond 1 MiB and 2 MiB also in the quick tier
                let k = if rng.chance(1, 40) { 20 + rng.usize_below(2) } else { 10 + rng.usize_below(if cfg.thorough { 11 } else { 8 }) };
                (1usize << k) - 48 + rng.usize_below(96)
            } else {
                200 + rng.usize_below(800)
            };
            let mut s = String::with_capacity(target + 16);
            while s.len() < target {
                s.push_str(*rng.pick(WORDS));
                s.push(if rng.chance(1, 9) { ',' } else { ' ' });
                if rng.chance(1, 6) {
                    s.push_str(*rng.pick(MB));
                }
            }
            s
        }
        8 => { let p = ["\"quoted\"", "a;b", "tab\there", "x=y", "semi;colon", "back\\slash", "'", "#", "%41", "a--b", "-", "--", "form\u{c}feed", "v\u{b}tab", "\u{a0}nbsp at both ends\u{a0}", "\u{2028}", "# comment?", "//", "\"", "a,\"b,c\",d"]; rng.pick(&p).to_string() }
        _ => format!("{:04X}..{:04X}", rng.below(0x10000), rng.below(0x110000)),
    };
    if d.is_empty() {
        d.push('X');
    }
    d
}

pub fn gen_good(rng: &mut Rng, cfg: &GenCfg) -> Good {
    let lo = gen_cp(rng);
    let hi = if rng.chance(2, 5) {
        let h = match rng.below(4) {
            0 => lo,
            1 => lo.saturating_add(1 + rng.below(64) as u32).min(0x10FFFF),
            _ => {
                let x = gen_cp(rng);
                x.max(lo)
            }
        };
        // keep surrogates out of both ends
        Some(if (0xD800..=0xDFFF).contains(&h) { 0xE000.max(lo) } else { h })
    } else {
        None
    };
    let width = *rng.pick(&[4usize, 4, 4, 5, 6]);
    let p = rng.below(7) as u8;
    let q = if rng.chance(1, 3) {
        let mut q = rng.below(7) as u8;
        if q == p {
            q = (q + 1 + rng.below(6) as u8) % 7;
        }
        Some(q)
    } else {
        None
    };
    let mut g = Good { lo, hi, width, p, q, desc: gen_desc(rng, cfg) };
    // land a long line exactly on a power-of-two boundary (text + LF = 2^k - 1, 2^k or 2^k + 1)
    let len = g.text().len() + 1;
    if len > 900 && rng.chance(1, 2) {
        let k = (usize::BITS - 1 - len.leading_zeros()) as usize; // floor(log2(len))
        let base = if len - (1 << k) < (1 << k) / 2 { 1usize << k } else { 1usize << (k + 1) };
        let want = base + rng.usize_below(3) - 1;
        if want > len {
            g.desc.push_str(&"x".repeat(want - len));
        } else {
            let mut cut = g.desc.len().saturating_sub(len - want).max(1);
            while !g.desc.is_char_boundary(cut) {
                cut -= 1;
            }
            g.desc.truncate(cut.max(1));
            let now = g.text().len() + 1;
            if now < want {
                g.desc.push_str(&"x".repeat(want - now));
            }
        }
    }
    g
}

pub const BAD_CLASSES: [&str; 18] = [
    "missing_desc", "missing_props", "missing_cp", "only_cp", "blank", "bad_prop_single", "bad_prop_left", "bad_prop_right",
    "bad_cp_empty", "bad_cp_nonhex", "bad_cp_too_big", "bad_cp_dangling_lo", "bad_cp_dangling_hi", "bad_cp_overlong",
    "bad_prop_or_shape", "two_defects", "bad_prop_empty", "mutated_field",
];

fn no_comma(s: &str) -> String {
    let t: String = s.chars().filter(|c| *c != ',').collect();
    if t.is_empty() { "X".to_string() } else { t }
}

const FIXED_BAD_NAMES: &[&str] = &["PVALIDX", "VALID", "FREE-PVAL", "CONTEXT", "DISALOWED", "IDDIS", "UNASSIGNED_", "P", "NOT_A_PROPERTY", "OR", "PVALID!", "_",
    "CONTEXTJO", "DISALLOWEDD", "UNASSIGNE", "ID_DI", "FREE_PVAL_", "XPVALID", "PVALIDPVALID", "ID_DIS_FREE_PVAL", "FREE", "PVAL", "CONTEXTX", "0041"];
/// Names a reader of RFC 8264 / RFC 5892 or of the library's own enum might take for legal: none
/// of them is one of the seven names the registry uses.
const ALIAS_BAD_NAMES: &[&str] = &["ID_PVAL", "FREE_DIS", "DIS", "ID_PVALID", "FREE_PVALID", "ID_DISALLOWED", "FREE_DISALLOWED", "CONTEXT_J", "CONTEXT_O",
    "JOIN_CONTROL", "UNASSIGN", "NOT_ASSIGNED", "INVALID", "ALLOWED", "PROTOCOL_VALID", "_PVALID", "PValid", "FreePVal", "ContextJ", "ContextO", "Disallowed",
    "IdDis", "Unassigned", "SpecClassPval", "SpecClassDis", "Exceptions", "BackwardCompatible", "LetterDigits", "OtherLetterDigits", "Spaces", "Symbols",
    "Punctuation", "HasCompat", "ASCII7", "JoinControl", "OldHangulJamo", "PrecisIgnorableProperties", "Controls", "Unknown", "NONE", "TRUE", "ANY"];

/// A property name that is not one of the registry's seven: a fixed spelling, an alias, a
/// recombination of the legal names' own prefixes and stems, a legal name one edit away, another
/// letter case, or two legal names glued together. Never contains a comma or " or ".
pub fn bad_name(rng: &mut Rng) -> String {
    loop {
        let n: String = match rng.below(7) {
            0 => rng.pick(FIXED_BAD_NAMES).to_string(),
            1 => rng.pick(ALIAS_BAD_NAMES).to_string(),
            2 => {
                let pre = ["", "ID_", "FREE_", "CONTEXT", "CONTEXT_", "P", "UN", "DIS", "ID", "FREE"];
                let stem = ["PVAL", "PVALID", "VALID", "DIS", "DISALLOWED", "ALLOWED", "J", "O", "ASSIGNED", "UNASSIGNED", "VAL"];
                format!("{}{}", rng.pick(&pre), rng.pick(&stem))
            }
            3 => {
                // one edit away from a legal name
                let mut c: Vec<char> = NAMES[rng.usize_below(7)].chars().collect();
                let i = rng.usize_below(c.len());
                match rng.below(5) {
                    0 => { c.remove(i); }
                    1 => { let x = c[i]; c.insert(i, x); }
                    2 => { if i + 1 < c.len() { c.swap(i, i + 1); } else { c.push('_'); } }
                    3 => { c[i] = *rng.pick(&['A', 'E', 'I', 'O', 'J', 'L', '_', '0', '1', 'X', 'D', 'V']); }
                    _ => { c.insert(i, *rng.pick(&['_', 'A', 'S', '-', '.'])); }
                }
                c.into_iter().collect()
            }
            4 => {
                let w = NAMES[rng.usize_below(7)];
                match rng.below(4) {
                    0 => w.to_lowercase(),
                    1 => { let mut t = w.to_lowercase(); t[..1].make_ascii_uppercase(); t }
                    2 => { let mut t = w.to_string(); t[..1].make_ascii_lowercase(); t }
                    _ => { let mut t = w.to_string(); let l = t.len(); t[l - 1..].make_ascii_lowercase(); t }
                }
            }
            5 => format!("{}{}{}", NAMES[rng.usize_below(7)], rng.pick(&["_", "", "/", "|", "+", "&", "_OR_", "or", "_or_"]), NAMES[rng.usize_below(7)]),
            _ => {
                // a legal name truncated or extended
                let w = NAMES[rng.usize_below(7)];
                if rng.chance(1, 2) { w[..1 + rng.usize_below(w.len() - 1)].to_string() } else { format!("{}{}", w, rng.pick(&["S", "_", "ID", "J", "O", "2", "_PVAL", "_DIS"])) }
            }
        };
        if !n.is_empty() && !NAMES.contains(&n.as_str()) && !n.contains(',') && !n.contains(" or ") {
            return n;
        }
    }
}

/// What the registry grammar says about a whole row text, independently of the parser:
/// `Some(true)` well-formed, `Some(false)` malformed, `None` not settled by C17 (letter case of
/// the digits, fewer than 4 or more than 6 digits, a reversed range, a surrogate, white space at
/// the edge of a field or other than one space around `or`).
pub fn grammar_verdict(text: &str) -> Option<bool> {
    let f: Vec<&str> = text.splitn(3, ',').collect();
    if f.len() != 3 {
        return Some(false);
    }
    let mut gray = false;
    for x in &f[..2] {
        if x.trim() != *x {
            gray = true;
        }
    }
    // one bound: Some(Some(v)) value, Some(None) gray, None malformed
    let bound = |b: &str| -> Option<Option<u32>> {
        if b.is_empty() || !b.chars().all(|c| c.is_ascii_hexdigit()) {
            return None;
        }
        let t = b.trim_start_matches('0');
        if t.len() > 6 {
            return None;
        }
        let v = u32::from_str_radix(if t.is_empty() { "0" } else { t }, 16).ok()?;
        if v > 0x10FFFF {
            return None;
        }
        if b.chars().any(|c| c.is_ascii_lowercase()) || b.len() < 4 || b.len() > 6 || (0xD800..=0xDFFF).contains(&v) {
            return Some(None);
        }
        Some(Some(v))
    };
    let cps = f[0].trim();
    let cps_ok = match cps.split_once('-') {
        None => bound(cps).map(|v| v.is_some()),
        Some((a, b)) => match (bound(a), bound(b)) {
            (Some(Some(x)), Some(Some(y))) => Some(x <= y),
            (Some(_), Some(_)) => Some(false),
            _ => None,
        },
    };
    // Some(true) fine, Some(false) gray, None malformed
    let props = f[1].trim();
    let props_ok = if NAMES.contains(&props) {
        Some(true)
    } else if let Some((a, b)) = props.split_once(" or ") {
        if NAMES.contains(&a) && NAMES.contains(&b) {
            Some(true)
        } else if NAMES.contains(&a.trim()) && NAMES.contains(&b.trim()) {
            Some(false)
        } else {
            None
        }
    } else {
        // other white space around a lower-case `or` between two legal names: not settled
        let w: Vec<&str> = props.split_whitespace().collect();
        if w.len() == 3 && w[1] == "or" && NAMES.contains(&w[0]) && NAMES.contains(&w[2]) { Some(false) } else { None }
    };
    match (cps_ok, props_ok) {
        (None, _) | (_, None) => Some(false),
        (Some(true), Some(true)) if !gray => Some(true),
        _ => None,
    }
}

/// One or two character edits inside the code point field or the property field of a good row,
/// kept only if the registry grammar calls the result malformed.
fn mutate_field(rng: &mut Rng, g: &Good) -> String {
    const ALPHABET: &[char] = &['0', '1', '9', 'A', 'F', 'G', 'Z', 'O', 'a', 'f', 'g', 'o', 'r', '+', '-', '-', ' ', '_', '.', ',', '\t', '\u{a0}', '\u{ff10}', '\u{661}', '\u{0}', ':', ';', '/', '*',
        'P', 'V', 'L', 'I', 'D', 'E', 'S', 'C', 'N', 'T', 'X', 'J', 'U', 'R', '\u{2013}', '\u{e9}', '\u{1d7d8}'];
    loop {
        let mut fields = [g.cps_text(), g.props_text()];
        let which = rng.usize_below(2);
        let mut c: Vec<char> = fields[which].chars().collect();
        for _ in 0..1 + rng.usize_below(2) {
            if c.is_empty() {
                break;
            }
            let i = rng.usize_below(c.len());
            match rng.below(5) {
                0 => { c.remove(i); }
                1 => { let a = *rng.pick(ALPHABET); c.insert(i + rng.usize_below(2), a); }
                2 => { c[i] = *rng.pick(ALPHABET); }
                3 => { if i + 1 < c.len() { c.swap(i, i + 1); } }
                _ => { let x = c[i]; c.insert(i, x); }
            }
        }
        fields[which] = c.into_iter().collect();
        let text = format!("{},{},{}", fields[0], fields[1], g.desc);
        if grammar_verdict(&text) == Some(false) {
            return text;
        }
    }
}

pub fn gen_bad(rng: &mut Rng, cfg: &GenCfg) -> Body {
    let g = gen_good(rng, cfg);
    let k = rng.usize_below(BAD_CLASSES.len());
    let n1 = bad_name(rng);
    let n2 = bad_name(rng);
    let bad_names = [n1.as_str(), n2.as_str()];
    let text = match k {
        0 => format!("{},{}", g.cps_text(), g.props_text()),
        1 => format!("{},{}", g.cps_text(), no_comma(&g.desc)),
        2 => format!("{},{}", g.props_text(), no_comma(&g.desc)),
        3 => g.cps_text(),
        4 => String::new(),
        5 => format!("{},{},{}", g.cps_text(), *rng.pick(&bad_names), g.desc),
        6 => format!("{},{} or {},{}", g.cps_text(), *rng.pick(&bad_names), NAMES[g.p as usize], g.desc),
        7 => format!("{},{} or {},{}", g.cps_text(), NAMES[g.p as usize], *rng.pick(&bad_names), g.desc),
        8 => format!(",{},{}", g.props_text(), g.desc),
        9 => {
            let junk = ["ghy0141", "U+0041", "0x41", "00G1", "41h", "XYZ", "00 41", "0041;", "#0041", "004l"];
            // or the row's own (valid) numbers with a range separator that is not the registry's '-'
            let hi = g.hi.unwrap_or(g.lo.saturating_add(1).min(0x10FFFF));
            let seps = ["..", "...", "\u{2013}", " - ", ":", "/", "_", " ", "to", "--", "+", "~", ".-", "-..", "\u{2010}", "\u{2212}"];
            let field = match rng.below(4) {
                0 => rng.pick(&junk).to_string(),
                1 => format!("{:04X}{}{:04X}", g.lo, rng.pick(&seps), hi),
                2 => {
                    // the row's own (valid) number with a character that is no hexadecimal digit in
                    // front, behind or in place of one digit: a sign, a digit of another script, a
                    // letter beyond F, a digit-group separator
                    let alien = ["+", "+", "G", "Z", "O", "_", "\u{ff14}", "\u{664}", "\u{0}", "'", "h", "x", "$", "#"];
                    let mut c: Vec<char> = format!("{:04X}", g.lo).chars().collect();
                    let a = rng.pick(&alien).chars().next().unwrap();
                    match rng.below(3) {
                        0 => c.insert(0, a),
                        1 => c.push(a),
                        _ => { let i = rng.usize_below(c.len()); c[i] = a; }
                    }
                    c.into_iter().collect()
                }
                _ => format!("+{:04X}", g.lo),
            };
            format!("{},{},{}", field, g.props_text(), g.desc)
        }
        10 => {
            // a value above 10FFFF, spelled out numerically: fixed spellings, a valid code point
            // with one higher bit set (still fits 32 bits), or a valid code point plus a multiple
            // of 2^32 (9+ digits: wraps to something valid in 32-bit arithmetic); alone, or as
            // the start, the end or both ends of a range
            let big = ["110000", "1FFFFF", "FFFFFF", "110000-110001", "0041-110000", "FFFFFFFF"];
            let too_big = |rng: &mut Rng| -> String {
                let v = gen_cp(rng) as u64;
                match rng.below(6) {
                    0 => format!("{:X}", v | (1u64 << (21 + rng.below(11)))),
                    1 => format!("{:X}", v + ((1 + rng.below(0xFFF)) << 32)),
                    2 => format!("{:X}", 0x110000 + rng.below(0x1000)),
                    // beyond 64 and 128 bits: a valid code point in the low digits, anything above
                    // (wraps or is shifted out in arithmetic of any fixed width)
                    3 => { let w = *rng.pick(&[16usize, 32, 8, 24, 12, 40]); format!("{:X}{:0w$X}", 1 + rng.below(0xFFFF), v, w = w) }
                    4 => format!("{}{:08X}", "F".repeat(8 * (1 + rng.usize_below(4))), v),
                    _ => format!("1{}{:06X}", "0".repeat(2 + rng.usize_below(40)), v),
                }
            };
            let field = match rng.below(5) {
                0 => rng.pick(&big).to_string(),
                1 => too_big(rng),
                2 => format!("{:04X}-{}", g.lo, too_big(rng)),
                3 => format!("{}-{:04X}", too_big(rng), g.hi.unwrap_or(g.lo)),
                _ => format!("{}-{}", too_big(rng), too_big(rng)),
            };
            format!("{},{},{}", field, g.props_text(), g.desc)
        }
        11 => format!("{:04X}-,{},{}", g.lo, g.props_text(), g.desc),
        12 => format!("-{:04X},{},{}", g.lo, g.props_text(), g.desc),
        13 => {
            let over = ["123454325460148", "124-0148-2345", "0041-0042-", "100000000", "0041--0042"];
            format!("{},{},{}", rng.pick(&over), g.props_text(), g.desc)
        }
        14 => {
            // valid names in an invalid 'or' arrangement
            let a = NAMES[g.p as usize];
            let b = NAMES[rng.usize_below(7)];
            let shapes = [format!("{} OR {}", a, b), format!("{} Or {}", a, b), format!("{} oR {}", a, b), format!("{} or", a), format!("or {}", a), format!("{} or or {}", a, b), format!("{} or {} or {}", a, b, a), format!("{} {}", a, b), format!("{}or{}", a, b), format!("{} or {},", a, b).trim_end_matches(',').to_string() + " or"];
            format!("{},{},{}", g.cps_text(), shapes[rng.usize_below(shapes.len())], g.desc)
        }
        17 => mutate_field(rng, &g),
        15 => {
            // two fields wrong at once: still an error, whichever is noticed first
            let junk = ["ghy0141", "110000", "0041-", "", "-0041"];
            format!("{},{},{}", rng.pick(&junk), *rng.pick(&bad_names), g.desc)
        }
        _ => format!("{},,{}", g.cps_text(), g.desc),
    };
    Body::Bad { text, class: BAD_CLASSES[k].to_string() }
}

pub fn gen_cfg(rng: &mut Rng, thorough: bool) -> GenCfg {
    let rows = match rng.below(100) {
        0..=4 => 0,
        5..=44 => 1 + rng.usize_below(5),
        45..=89 => 6 + rng.usize_below(35),
        90..=98 => 41 + rng.usize_below(260),
        _ => {
            // now and then more lines than a 16-bit counter holds
            if rng.chance(1, if thorough { 40 } else { 120 }) {
                65_500 + rng.usize_below(600)
            } else if thorough {
                1000 + rng.usize_below(600)
            } else {
                1000 + rng.usize_below(60)
            }
        }
    };
    let mut desc_shapes: Vec<u8> = (0..DESC_SHAPES.len() as u8).filter(|s| if *s == 7 { rng.chance(1, 6) } else { rng.chance(1, 2) }).collect();
    if desc_shapes.is_empty() {
        desc_shapes.push(rng.below(7) as u8);
    }
    GenCfg {
        thorough,
        corrupt_lines: if rng.chance(1, 6) { 1 + rng.usize_below(2) } else { 0 },
        rows,
        bad_share: *rng.pick(&[0u64, 0, 10, 10, 30, 50, 100]),
        term_style: rng.below(3) as u8,
        last_term_none: rng.chance(1, 4),
        desc_shapes,
        long_lines: rows <= 40 && rng.chance(1, 3),
    }
}

pub fn gen_file(rng: &mut Rng, cfg: &GenCfg) -> FileModel {
    if rng.chance(1, 60) {
        return FileModel { header: None, header_corrupt: None, rows: vec![] };
    }
    let term = |rng: &mut Rng| match cfg.term_style {
        0 => Term::Lf,
        1 => Term::CrLf,
        _ => if rng.chance(1, 2) { Term::Lf } else { Term::CrLf },
    };
    let headers = ["Codepoint,Property,Description", "Code Point(s),Property,Description", "", "0041,PVALID,LATIN CAPITAL LETTER A", "header", ",,", "\u{feff}Codepoint,Property,Description", "a,b,c,d,e"];
    let header = Some((rng.pick(&headers).to_string(), term(rng)));
    let mut rows = vec![];
    for _ in 0..cfg.rows {
        // now and then a row derived from the previous well-formed one: an exact duplicate, the
        // same code points with other properties/description, or the same text after other code
        // points — what de-duplication, or a cache keyed by one column, would confuse
        let prev_good = match rows.last() {
            Some(Line { body: Body::Good(g), .. }) => Some(g.clone()),
            _ => None,
        };
        let body = match prev_good {
            Some(pg) if rng.chance(1, 12) => {
                let fresh = gen_good(rng, cfg);
                Body::Good(match rng.below(3) {
                    0 => pg,
                    1 => Good { lo: pg.lo, hi: pg.hi, width: pg.width, ..fresh },
                    _ => Good { lo: fresh.lo, hi: fresh.hi, width: fresh.width, ..pg },
                })
            }
            _ => {
                if rng.below(100) < cfg.bad_share { gen_bad(rng, cfg) } else { Body::Good(gen_good(rng, cfg)) }
            }
        };
        rows.push(Line { body, term: term(rng), corrupt: None });
    }
    let mut m = FileModel { header, header_corrupt: None, rows };
    if cfg.last_term_none {
        if let Some(l) = m.rows.last_mut() {
            l.term = Term::None;
        } else if let Some((_, t)) = &mut m.header {
            *t = Term::None;
        }
    }
    m.normalise();
    m
}

/// Overwrites one byte in `n` randomly chosen lines (header included) with 0xFF.
pub fn corrupt_file(rng: &mut Rng, m: &mut FileModel, n: usize) {
    for _ in 0..n {
        let nlines = m.rows.len() + 1;
        let k = rng.usize_below(nlines);
        if k == 0 || rng.chance(1, 8) {
            if let Some((h, _)) = &m.header {
                if !h.is_empty() {
                    m.header_corrupt = Some(rng.usize_below(h.len()));
                }
            }
        } else {
            let r = &mut m.rows[k - 1];
            let len = r.text().len();
            if len > 0 {
                r.corrupt = Some(rng.usize_below(len));
            }
        }
    }
}
