//! C17: the registry CSV line parser (`CsvLineParser` + the field parsers of precis-tools, real
//! code) driven by a simulated `io::Read`, checked item by item against the row model.
//!
//! Modes
//!   worker   --seed S --from A --to B --tier T --out FILE
//!   driver   --seed S --tier T [--runs N] [--jobs J] --out FILE
//!   replay   FILE
//!   minimise FILE --out FILE2
//! Exit codes: 0 no violation, 1 violation, 2 harness error.

mod model;
mod reader;

use model::*;
use precis_tools::{CsvLineParser, DerivedProperties, DerivedProperty, PrecisDerivedProperty};
use reader::*;
use serde_json::{json, Value};
use simcore::evidence::{read_json, write_json};
use simcore::pool::{arg_val, run_chunks};
use simcore::{hash_bytes, hash_combine, Rng};
use std::collections::{BTreeMap, BTreeSet};
use std::marker::PhantomData;
use std::path::{Path, PathBuf};
use std::rc::Rc;
use std::str::FromStr;

fn prop_index(p: DerivedProperty) -> u8 {
    match p {
        DerivedProperty::PValid => 0,
        DerivedProperty::FreePVal => 1,
        DerivedProperty::ContextJ => 2,
        DerivedProperty::ContextO => 3,
        DerivedProperty::Disallowed => 4,
        DerivedProperty::IdDis => 5,
        DerivedProperty::Unassigned => 6,
    }
}

/// What the iterator delivered for one `next()` call, reduced to what the property talks about.
#[derive(Clone, Debug, PartialEq, Eq)]
enum Got {
    Rec { lo: u32, hi: Option<u32>, p: u8, q: Option<u8>, desc: String },
    Err { line: Option<u64>, io: bool, mesg: String },
    Panic,
    None,
}

fn got_of_rec(r: &PrecisDerivedProperty) -> Got {
    let (lo, hi) = match r.codepoints {
        ucd_parse::Codepoints::Single(c) => (c.value(), None),
        ucd_parse::Codepoints::Range(r) => (r.start.value(), Some(r.end.value())),
    };
    let (p, q) = match r.properties {
        DerivedProperties::Single(p) => (prop_index(p), None),
        DerivedProperties::Tuple((p, q)) => (prop_index(p), Some(prop_index(q))),
    };
    Got::Rec { lo, hi, p, q, desc: r.description.clone() }
}

fn got_to_json(g: &Got) -> Value {
    match g {
        Got::Rec { lo, hi, p, q, desc } => json!({"record": {"lo": lo, "hi": hi, "p": NAMES[*p as usize], "q": q.map(|q| NAMES[q as usize]), "description": desc}}),
        Got::Err { line, io, mesg } => json!({"error": {"line": line, "io": io, "mesg": mesg}}),
        Got::Panic => json!("panic"),
        Got::None => json!("None"),
    }
}

fn expect_to_json(e: &Expect) -> Value {
    match e {
        Expect::Rec { lo, hi, p, q, desc } => json!({"record": {"lo": lo, "hi": hi, "p": NAMES[*p as usize], "q": q.map(|q| NAMES[q as usize]), "description": desc}}),
        Expect::Err => json!("error with this line number"),
        Expect::Any => json!("anything"),
    }
}

/// "same description text (up to the line terminator)"
fn strip_terminator(d: &str) -> &str {
    let d = d.strip_suffix('\n').unwrap_or(d);
    d.strip_suffix('\r').unwrap_or(d)
}

/// Compares one delivered item with the model. `line` is the 1-based physical line number.
fn judge(exp: &Expect, got: &Got, line: u64) -> Option<&'static str> {
    match (exp, got) {
        (_, Got::Panic) => Some("panic"),
        (Expect::Any, _) => None,
        (Expect::Rec { lo, hi, p, q, desc }, Got::Rec { lo: l2, hi: h2, p: p2, q: q2, desc: d2 }) => {
            if lo != l2 || hi != h2 {
                Some("wrong_codepoints")
            } else if p != p2 || q != q2 {
                Some("wrong_properties")
            } else if strip_terminator(d2) != desc {
                Some("wrong_description")
            } else {
                None
            }
        }
        (Expect::Rec { .. }, Got::Err { io: true, .. }) => Some("io_error_on_wellformed_row"),
        (Expect::Rec { .. }, Got::Err { .. }) => Some("rejected_wellformed"),
        (Expect::Err, Got::Rec { .. }) => Some("accepted_malformed"),
        (Expect::Err, Got::Err { io: true, .. }) => Some("io_error_instead_of_parse_error"),
        (Expect::Err, Got::Err { line: l, .. }) => {
            if *l == Some(line) {
                None
            } else if l.is_none() {
                Some("error_without_line_number")
            } else {
                Some("wrong_line_number")
            }
        }
        (_, Got::None) => Some("lost_row"),
    }
}

// ------------------------------------------------------------------ cases

#[derive(Clone, Debug)]
struct Consumer {
    extra_after_none: u8,
    stop_at_first_err: bool,
    /// other parts of the Iterator interface (strict configuration without corruption only):
    /// at item index `.0` call `nth(.1)` instead of `next()`
    nth_at: Option<(usize, usize)>,
    /// after this many items, finish with `count()` and compare with the rows that remain
    count_after: Option<usize>,
    /// after this many items, obtain all remaining items through `for_each` (i.e. `fold`) instead
    /// of `next()`; they are then judged exactly as if `next()` had delivered them
    fold_after: Option<usize>,
}

#[derive(Clone, Debug)]
enum ReaderSpec {
    Gen { seed: u64, script: GenScript },
    Trace(Vec<Dec>),
}

#[derive(Clone, Debug)]
struct Case {
    file: FileModel,
    /// "strict" (transparent faults only), "torn", "hard"
    config: String,
    torn_at: Option<usize>,
    reader: ReaderSpec,
    consumer: Consumer,
    via_real_file: bool,
    /// with via_real_file: the path is a FIFO (metadata length 0) fed by a helper thread
    via_fifo: bool,
    /// a second, independent line parser (its own generated file behind a plain in-memory reader)
    /// is alive during the run and is advanced by 0..3 items between any two calls on the parser
    /// under observation: two parser tasks interleaved on one thread by the seeded schedule.
    /// (generator seed, run index, schedule seed)
    companion: Option<(u64, u64, u64)>,
}

type CompParser = CsvLineParser<std::io::Cursor<Vec<u8>>, PrecisDerivedProperty>;

/// Is the parser type of the tree under test `Send`? Nothing in C17 promises it; if a change makes
/// it `!Send` (an `Rc` inside, say) the helper-thread variant of the companion is simply not used.
/// (Inherent method when the bound holds, trait default otherwise.)
struct SendProbe<T>(PhantomData<T>);
trait SendFallback {
    fn is_send(&self) -> bool {
        false
    }
}
impl<T> SendFallback for SendProbe<T> {}
impl<T: Send> SendProbe<T> {
    fn is_send(&self) -> bool {
        true
    }
}
fn comp_parser_is_send() -> bool {
    SendProbe::<CompParser>(PhantomData).is_send()
}
/// Carries the `&mut` parser into the helper thread; only ever used when `comp_parser_is_send()`.
struct Carrier<'a>(&'a mut CompParser);
unsafe impl<'a> Send for Carrier<'a> {}
impl<'a> Carrier<'a> {
    fn into_inner(self) -> &'a mut CompParser {
        self.0
    }
}

struct Companion {
    parser: Option<CompParser>,
    exp: Vec<Entry>,
    k: usize,
    rng: Rng,
    bytes: Vec<u8>,
    on_thread: bool,
    thread_budget: u32,
}

/// The companion's registry file: a pure function of (seed, idx), never corrupted.
fn companion_file(seed: u64, idx: u64) -> FileModel {
    let mut rng = Rng::derive(seed, idx, 23);
    let mut cfg = gen_cfg(&mut rng, false);
    cfg.rows = cfg.rows.min(400);
    gen_file(&mut rng, &cfg)
}

#[derive(Clone, Debug)]
struct Violation {
    kind: String,
    index: usize,
    line: u64,
    expected: Value,
    got: Value,
    row_class: String,
    row_text: String,
}

impl Violation {
    fn key(&self) -> String {
        format!("{}|{}|{}", self.kind, self.row_class, self.row_text)
    }
    fn to_json(&self) -> Value {
        json!({"kind": self.kind, "item_index": self.index, "physical_line": self.line, "expected": self.expected, "delivered": self.got,
               "row_class": self.row_class, "row_text": self.row_text, "key": self.key()})
    }
}

struct Outcome {
    violation: Option<Violation>,
    trace: Vec<Dec>,
    stats: ReadStats,
    items: usize,
    delivered_ok: u64,
    delivered_err: u64,
    hard_fired_at_call: Option<usize>,
    rows_after_hard_error: u64,
    of_which_not_in_file: u64,
    max_error_line: u64,
    asked_after_none: u64,
    line_longer_than_buffer: bool,
    longest_line: usize,
    used_nth: bool,
    used_count: bool,
    used_fold: bool,
    used_fifo: bool,
    companion_items: u64,
    companion_thread_steps: u64,
    companion_recreated: u64,
    /// after a hard read error: did the parser deliver an error item (at all / not at the failing call itself)?
    failure_reported: bool,
    failure_reported_late: bool,
    /// sequence of (kind, bytes consumed at that point): the observable history
    history_hash: u64,
}

fn classify(r: Option<Result<PrecisDerivedProperty, precis_tools::Error>>) -> Got {
    match r {
        None => Got::None,
        Some(Ok(rec)) => got_of_rec(&rec),
        Some(Err(e)) => Got::Err { line: e.line(), io: e.mesg().starts_with("IO Error"), mesg: e.mesg().to_string() },
    }
}

fn run_case(case: &Case, scratch: Option<&Path>) -> Outcome {
    let full = case.file.bytes();
    let (data, expected, inside_char): (Vec<u8>, Vec<Entry>, bool) = match case.torn_at {
        Some(at) => {
            let at = at.min(full.len());
            let (e, ic) = case.file.torn_expectations(at);
            let e = e.into_iter().enumerate().map(|(i, exp)| Entry { line: i as u64 + 2, exp, optional: false, row: Some(i) }).collect();
            (full[..at].to_vec(), e, ic)
        }
        None => (full, case.file.expectations(), false),
    };
    let _ = inside_char;
    let data = Rc::new(data);
    let (rdr, shared) = match &case.reader {
        ReaderSpec::Gen { seed, script } => SimReader::generated(data.clone(), Rng::new(*seed), script.clone()),
        ReaderSpec::Trace(t) => SimReader::replaying(data.clone(), t.clone()),
    };
    let row_info = |i: usize| -> (String, String) {
        match case.file.rows.get(i) {
            Some(r) => (r.class(), r.text()),
            None => ("beyond_last_row".to_string(), String::new()),
        }
    };
    let mut out = Outcome {
        violation: None, trace: vec![], stats: ReadStats::default(), items: 0, delivered_ok: 0, delivered_err: 0,
        hard_fired_at_call: None, rows_after_hard_error: 0, of_which_not_in_file: 0, max_error_line: 0, asked_after_none: 0,
        line_longer_than_buffer: data.split(|b| *b == b'\n').any(|l| l.len() > 8192), longest_line: data.split(|b| *b == b'\n').map(|l| l.len() + 1).max().unwrap_or(0), used_nth: false, used_count: false, used_fold: false, used_fifo: false, companion_items: 0, companion_thread_steps: 0, companion_recreated: 0, failure_reported: false, failure_reported_late: false, history_hash: 0,
    };
    let max_calls = expected.len() + 8;
    let mut hh = hash_bytes(&data);

    // the companion parser task (see Case::companion): created before or after the observed parser
    let mut comp: Option<Companion> = case.companion.map(|(s, ix, sched)| {
        let f = companion_file(s, ix);
        let mut rng = Rng::new(sched);
        let created_first = rng.chance(1, 2);
        let on_thread = rng.chance(1, 4);
        let bytes = f.bytes();
        Companion {
            parser: if created_first { Some(CsvLineParser::from_reader(std::io::Cursor::new(bytes.clone()))) } else { None },
            exp: f.expectations(), k: 0, rng, bytes, on_thread, thread_budget: 48,
        }
    });
    // the system under test: the real line iterator over the simulated reader (or a real file)
    let mut via_file: Option<CsvLineParser<std::fs::File, PrecisDerivedProperty>> = None;
    let mut via_sim: Option<CsvLineParser<SimReader, PrecisDerivedProperty>> = None;
    let mut tmp_path: Option<PathBuf> = None;
    let mut fifo_writer: Option<std::thread::JoinHandle<()>> = None;
    if case.via_real_file && case.via_fifo {
        // from_path over a path whose metadata says "0 bytes" although data will come: a FIFO, as
        // with /dev/stdin or a shell process substitution. The bytes are written by a helper
        // thread and the pipe is then closed; what the parser delivers does not depend on timing.
        let p = scratch.unwrap_or(Path::new("/verif/build/tmp")).join(format!("c17-{}.fifo", std::process::id()));
        let _ = std::fs::create_dir_all(p.parent().unwrap());
        let _ = std::fs::remove_file(&p);
        let ok = std::process::Command::new("mkfifo").arg(&p).status().map(|s| s.success()).unwrap_or(false);
        if ok {
            let (p2, d2) = (p.clone(), data.to_vec());
            fifo_writer = Some(std::thread::spawn(move || {
                if let Ok(mut f) = std::fs::OpenOptions::new().write(true).open(&p2) {
                    let _ = std::io::Write::write_all(&mut f, &d2);
                }
            }));
            via_file = Some(CsvLineParser::from_path(&p).expect("HARNESS: from_path failed on a fifo just created"));
            tmp_path = Some(p);
            out.used_fifo = true;
            drop(rdr);
        } else {
            via_sim = Some(CsvLineParser::from_reader(rdr));
        }
    } else if case.via_real_file {
        let p = scratch.unwrap_or(Path::new("/verif/build/tmp")).join(format!("c17-{}.csv", std::process::id()));
        let _ = std::fs::create_dir_all(p.parent().unwrap());
        std::fs::write(&p, &**data).expect("HARNESS: cannot write scratch file");
        via_file = Some(CsvLineParser::from_path(&p).expect("HARNESS: from_path failed on a file just written"));
        tmp_path = Some(p);
        drop(rdr);
    } else {
        via_sim = Some(CsvLineParser::from_reader(rdr));
    }
    let mut comp_violation: Option<Violation> = None;
    let mut comp_items = 0u64;
    let mut comp_threads = 0u64;
    let mut comp_recreated = 0u64;
    let mut comp_step = |comp: &mut Option<Companion>| {
        if let Some(c) = comp.as_mut() {
            // now and then the companion is dropped half-way through its file and a new one starts
            // from the top: parsers are created and dropped while the observed one is in mid-file
            if c.parser.is_some() && c.k > 0 && c.k <= c.exp.len() && c.rng.chance(1, 24) {
                c.parser = None;
                c.k = 0;
                comp_recreated += 1;
            }
            let pulls = c.rng.below(4);
            for _ in 0..pulls {
                if comp_violation.is_some() || c.k > c.exp.len() {
                    break;
                }
                if c.parser.is_none() {
                    c.parser = Some(CsvLineParser::from_reader(std::io::Cursor::new(c.bytes.clone())));
                }
                let p = c.parser.as_mut().unwrap();
                let got = if c.on_thread && c.thread_budget > 0 && comp_parser_is_send() {
                    // the same step on a helper OS thread that starts and exits around it: exactly one
                    // thread runs at any time, so the run stays a function of the seed
                    c.thread_budget -= 1;
                    comp_threads += 1;
                    let carrier = Carrier(p);
                    std::thread::scope(|s| {
                        s.spawn(move || {
                            let p = carrier.into_inner();
                            match std::panic::catch_unwind(std::panic::AssertUnwindSafe(|| p.next())) {
                                Ok(x) => classify(x),
                                Err(_) => Got::Panic,
                            }
                        })
                        .join()
                        .unwrap_or(Got::Panic)
                    })
                } else {
                    match std::panic::catch_unwind(std::panic::AssertUnwindSafe(|| p.next())) {
                        Ok(x) => classify(x),
                        Err(_) => Got::Panic,
                    }
                };
                comp_items += 1;
                let bad = match c.exp.get(c.k) {
                    Some(e) => judge(&e.exp, &got, e.line).map(|kind| (kind, e.line, expect_to_json(&e.exp))),
                    None => if got == Got::None { None } else { Some(("extra_row", c.exp.len() as u64 + 2, json!("None (end of file)"))) },
                };
                if let Some((kind, line, expected)) = bad {
                    comp_violation = Some(Violation { kind: kind.into(), index: c.k, line, expected, got: got_to_json(&got), row_class: "companion_parser".into(), row_text: String::new() });
                }
                c.k += 1;
            }
        }
    };
    let plain = case.config == "strict" && !case.file.has_corruption();
    let nth_at = if plain { case.consumer.nth_at } else { None };
    let count_after = if plain { case.consumer.count_after } else { None };
    let fold_after = if plain { case.consumer.fold_after } else { None };
    let mut folded: Option<std::collections::VecDeque<Got>> = None;
    let mut size_hint_bad: Option<(usize, Option<usize>)> = None;
    let mut counted: Option<Result<usize, ()>> = None;
    let mut next_op = |call: usize, skip: usize, finish_with_count: bool, remaining: usize| -> Got {
        shared.borrow_mut().cur_call = call;
        if let Some(q) = folded.as_mut() {
            // already drained through for_each: replay the collected items
            for _ in 0..skip {
                q.pop_front();
            }
            return q.pop_front().unwrap_or(Got::None);
        }
        if fold_after == Some(call) && !finish_with_count {
            let mut q = std::collections::VecDeque::new();
            let r = std::panic::catch_unwind(std::panic::AssertUnwindSafe(|| match (via_sim.take(), via_file.take()) {
                (Some(p), _) => p.for_each(|x| q.push_back(classify(Some(x)))),
                (_, Some(p)) => p.for_each(|x| q.push_back(classify(Some(x)))),
                _ => unreachable!(),
            }));
            if r.is_err() {
                q.push_back(Got::Panic);
            }
            for _ in 0..skip {
                q.pop_front();
            }
            let first = q.pop_front().unwrap_or(Got::None);
            folded = Some(q);
            return first;
        }
        let r = std::panic::catch_unwind(std::panic::AssertUnwindSafe(|| {
            if finish_with_count {
                let n = match (via_sim.take(), via_file.take()) {
                    (Some(p), _) => p.count(),
                    (_, Some(p)) => p.count(),
                    _ => return None, // already consumed by for_each
                };
                counted = Some(Ok(n));
                return None;
            }
            match (&mut via_sim, &mut via_file) {
                (Some(p), _) => {
                    let (lo, hi) = p.size_hint();
                    if plain && (lo > remaining || hi.map(|h| h < remaining).unwrap_or(false)) {
                        size_hint_bad = Some((lo, hi));
                    }
                    if skip > 0 { p.nth(skip) } else { p.next() }
                }
                (_, Some(p)) => {
                    if skip > 0 { p.nth(skip) } else { p.next() }
                }
                _ => None,
            }
        }));
        match r {
            Ok(x) => classify(x),
            Err(_) => {
                if finish_with_count {
                    counted = Some(Err(()));
                }
                Got::Panic
            }
        }
    };

    // `i` counts next() calls, `ei` walks the expected entries (they differ only when a corrupted
    // line legitimately produced no item)
    let mut i = 0usize;
    let mut ei = 0usize;
    let mut ended = false;
    let row_of = |ei: usize| -> (String, String) {
        match expected.get(ei).and_then(|e| e.row) {
            Some(r) => row_info(r),
            None => ("beyond_last_row".to_string(), String::new()),
        }
    };
    let mut counted_expect: Option<usize> = None;
    // set once the parser has delivered an error item after a hard read error fired
    let mut failure_reported = false;
    while i < max_calls {
        if count_after == Some(out.items) && ei <= expected.len() {
            // finish through Iterator::count(): every remaining line yields exactly one item
            counted_expect = Some(expected.len() - ei);
            comp_step(&mut comp);
            let _ = next_op(i, 0, true, expected.len() - ei);
            break;
        }
        let skip = match nth_at {
            Some((at, j)) if at == ei && ei + j <= expected.len() => j,
            _ => 0,
        };
        comp_step(&mut comp);
        let got = next_op(i, skip, false, expected.len().saturating_sub(ei));
        ei += skip; // the skipped items are not observed; the one returned must be the (ei+skip)-th
        let hard_at = shared.borrow().hard_fired_at_call;
        hh = hash_combine(hh, hash_bytes(format!("{:?}", got).as_bytes()));
        let fault_fired = hard_at.map(|h| i >= h).unwrap_or(false);
        match &got {
            Got::Rec { .. } => out.delivered_ok += 1,
            Got::Err { line, .. } => {
                out.delivered_err += 1;
                out.max_error_line = out.max_error_line.max(line.unwrap_or(0));
            }
            _ => {}
        }
        if fault_fired && failure_reported {
            // C17 says nothing about what the items look like once a read failure has been reported:
            // recorded for the reader of the evidence, not judged (DESIGN §5.4)
            if let Got::Rec { .. } = got {
                out.rows_after_hard_error += 1;
                let in_file = expected.iter().any(|e| matches!(e.exp, Expect::Rec { .. }) && judge(&e.exp, &got, 0).is_none());
                if !in_file {
                    out.of_which_not_in_file += 1;
                }
            }
            if got == Got::None || got == Got::Panic {
                if got == Got::Panic {
                    let (c, t) = row_of(ei);
                    out.violation = Some(Violation { kind: "panic".into(), index: i, line: 0, expected: json!("no panic"), got: json!("panic"), row_class: c, row_text: t });
                }
                break;
            }
            i += 1;
            continue;
        }
        if fault_fired && got != Got::Panic {
            // A read has failed and the parser has not said so yet. It may still deliver rows it
            // had already read, or recover transparently (a correct retry), or report the failure
            // now or - with look-ahead - a call or two later. What it must not do is swallow the
            // failure: accept a row that is not the row that is due, or end the stream with rows
            // outstanding, without ever having delivered an error item.
            let due_ok = ei < expected.len() && judge(&expected[ei].exp, &got, expected[ei].line).is_none();
            let clean_end = got == Got::None && ei >= expected.len();
            if !due_ok && !clean_end {
                if matches!(got, Got::Err { .. }) {
                    failure_reported = true;
                    out.failure_reported = true;
                    out.failure_reported_late = hard_at != Some(i);
                    i += 1;
                    continue;
                }
                let (c, t) = row_of(ei);
                out.violation = Some(Violation { kind: "read_failure_swallowed".into(), index: i, line: expected.get(ei).map(|e| e.line).unwrap_or(0),
                    expected: json!("the row that is due, or an error item reporting the failed read"), got: got_to_json(&got), row_class: c, row_text: t });
                break;
            }
        }
        // corrupted lines: the item belongs to the corrupted line if it is an I/O-style error
        // (no line number) or an error carrying that line's number, or a record with that row's
        // own code points and properties (lossy decoding); otherwise the line produced nothing
        let mut consumed_by_corrupt = false;
        while ei < expected.len() && expected[ei].optional {
            let e = &expected[ei];
            let belongs = match &got {
                Got::Panic => true,
                Got::None => false,
                Got::Err { line, io, .. } => *io || line.is_none() || *line == Some(e.line),
                Got::Rec { lo, hi, p, q, .. } => match e.row.map(|r| &case.file.rows[r].body) {
                    // ... unless the next line is an intact row that this record fits just as well
                    // (a following line that is itself corrupted fits anything and decides nothing)
                    Some(Body::Good(g)) => (g.lo, g.hi, g.p, g.q) == (*lo, *hi, *p, *q)
                        && !expected.get(ei + 1).map(|n| !n.optional && judge(&n.exp, &got, n.line).is_none()).unwrap_or(false),
                    _ => false,
                },
            };
            ei += 1;
            if belongs {
                consumed_by_corrupt = true;
                break;
            }
        }
        if consumed_by_corrupt {
            if got == Got::Panic {
                let (c, t) = row_of(ei - 1);
                out.violation = Some(Violation { kind: "panic".into(), index: i, line: expected[ei - 1].line, expected: json!("no panic"), got: json!("panic"), row_class: c, row_text: t });
                break;
            }
            out.items += 1;
            i += 1;
            continue;
        }
        if ei < expected.len() {
            let exp = &expected[ei].exp;
            let line = expected[ei].line;
            // the last expected item of a torn file may legitimately be the end of the stream
            let lenient_end = matches!(exp, Expect::Any) && got == Got::None;
            if !lenient_end {
                if let Some(kind) = judge(exp, &got, line) {
                    let (c, t) = row_of(ei);
                    out.violation = Some(Violation { kind: kind.into(), index: i, line, expected: expect_to_json(exp), got: got_to_json(&got), row_class: c, row_text: t });
                    break;
                }
            }
            if got == Got::None {
                ended = true;
                break;
            }
            out.items += 1;
            ei += 1;
            if case.consumer.stop_at_first_err && matches!(got, Got::Err { .. }) {
                break;
            }
        } else {
            let line = case.file.rows.len() as u64 + 2;
            match got {
                Got::None => {
                    ended = true;
                    break;
                }
                Got::Panic => {
                    out.violation = Some(Violation { kind: "panic".into(), index: i, line, expected: json!("None"), got: json!("panic"), row_class: "beyond_last_row".into(), row_text: String::new() });
                    break;
                }
                _ => {
                    out.violation = Some(Violation { kind: "extra_row".into(), index: i, line, expected: json!("None (end of file)"), got: got_to_json(&got), row_class: "beyond_last_row".into(), row_text: String::new() });
                    break;
                }
            }
        }
        i += 1;
    }
    if ended && out.violation.is_none() {
        for k in 0..case.consumer.extra_after_none as usize {
            out.asked_after_none += 1;
            let got = next_op(i + 1 + k, 0, false, 0);
            if shared.borrow().hard_fired_at_call.is_some() {
                break;
            }
            if got != Got::None {
                out.violation = Some(Violation { kind: "row_after_none".into(), index: i + 1 + k, line: 0, expected: json!("None again"), got: got_to_json(&got), row_class: "beyond_last_row".into(), row_text: String::new() });
                break;
            }
        }
    }
    drop(next_op);
    // the companion finishes its own file after the observed parser has stopped
    if out.violation.is_none() {
        for _ in 0..2000 {
            match comp.as_ref() {
                Some(c) if c.k <= c.exp.len() => comp_step(&mut comp),
                _ => break,
            }
        }
    }
    drop(comp_step);
    out.companion_items = comp_items;
    out.companion_thread_steps = comp_threads;
    out.companion_recreated = comp_recreated;
    if out.violation.is_none() {
        out.violation = comp_violation;
    }
    if out.violation.is_none() {
        if let (Some(want), Some(got)) = (counted_expect, counted) {
            out.used_count = true;
            if got != Ok(want) {
                out.violation = Some(Violation { kind: if got.is_err() { "panic".into() } else { "count_disagrees_with_rows".into() }, index: i, line: 0,
                    expected: json!({"Iterator::count() over the remaining lines": want}), got: json!(format!("{:?}", got)), row_class: "iterator_interface".into(), row_text: String::new() });
            }
        }
        if let Some(h) = size_hint_bad {
            out.violation = Some(Violation { kind: "size_hint_excludes_the_truth".into(), index: i, line: 0, expected: json!("lower <= remaining rows <= upper"), got: json!(format!("{:?}", h)), row_class: "iterator_interface".into(), row_text: String::new() });
        }
    }
    if shared.borrow().livelock {
        if let Some(v) = out.violation.as_mut() {
            if v.kind == "panic" {
                v.kind = "no_progress_after_end_of_input".into();
            }
        }
    }
    out.used_nth = nth_at.is_some();
    out.used_fold = folded.is_some();
    drop(via_sim);
    drop(via_file);
    if let Some(h) = fifo_writer {
        let _ = h.join(); // the reader end is closed by now: a writer still blocked gets EPIPE and returns
    }
    if let Some(p) = tmp_path {
        let _ = std::fs::remove_file(p);
    }
    let sh = shared.borrow();
    out.trace = sh.trace.clone();
    out.stats = sh.stats.clone();
    out.hard_fired_at_call = sh.hard_fired_at_call;
    out.history_hash = hash_combine(hh, hash_bytes(format!("{:?}", sh.trace).as_bytes()));
    out
}

/// Secondary oracle: the same row text parsed directly through `FromStr` (no stream, no line number).
fn direct_check(file: &FileModel) -> Option<Violation> {
    for (i, r) in file.rows.iter().enumerate() {
        if r.corrupt.is_some() {
            continue;
        }
        let text = r.text();
        let exp = match &r.body {
            Body::Good(g) => Expect::Rec { lo: g.lo, hi: g.hi, p: g.p, q: g.q, desc: g.desc.clone() },
            Body::Bad { .. } => Expect::Err,
        };
        let res = std::panic::catch_unwind(|| PrecisDerivedProperty::from_str(&text));
        let got = match res {
            Err(_) => Got::Panic,
            Ok(Ok(rec)) => got_of_rec(&rec),
            Ok(Err(e)) => Got::Err { line: e.line(), io: false, mesg: e.mesg().to_string() },
        };
        let bad = match (&exp, &got) {
            (Expect::Err, Got::Err { .. }) => None, // no line number is promised outside the line parser
            _ => judge(&exp, &got, 0),
        };
        if let Some(kind) = bad {
            return Some(Violation { kind: format!("direct_{}", kind), index: i, line: i as u64 + 2, expected: expect_to_json(&exp), got: got_to_json(&got), row_class: r.class(), row_text: text });
        }
    }
    None
}

// ------------------------------------------------------------------ case generation

fn plan_case(seed: u64, idx: u64, tier: &str) -> Case {
    let mut rng = Rng::derive(seed, idx, 17);
    let cfg = gen_cfg(&mut rng, tier == "thorough");
    let mut file = gen_file(&mut rng, &cfg);
    let config = match rng.below(10) {
        0..=5 => "strict",
        6..=7 => "torn",
        _ => "hard",
    };
    if config == "strict" && cfg.corrupt_lines > 0 {
        corrupt_file(&mut rng, &mut file, cfg.corrupt_lines);
        file.normalise();
    }
    let len = file.bytes().len();
    // fault position biased to land inside a row: after a comma, inside a multi-byte character,
    // at a buffer refill boundary; otherwise uniform
    let fault_pos = |rng: &mut Rng| -> usize {
        let data = file.bytes();
        if data.is_empty() {
            return 0;
        }
        match rng.below(6) {
            0 => {
                let commas: Vec<usize> = data.iter().enumerate().filter(|(_, b)| **b == b',').map(|(i, _)| i + 1).collect();
                if commas.is_empty() { rng.usize_below(len + 1) } else { *rng.pick(&commas) }
            }
            1 => {
                let conts: Vec<usize> = data.iter().enumerate().filter(|(_, b)| (**b & 0xC0) == 0x80).map(|(i, _)| i).collect();
                if conts.is_empty() { rng.usize_below(len + 1) } else { *rng.pick(&conts) }
            }
            2 => {
                let k = 8192 * (1 + rng.usize_below(3));
                if k <= len { k } else { rng.usize_below(len + 1) }
            }
            3 => {
                let nls: Vec<usize> = data.iter().enumerate().filter(|(_, b)| **b == b'\n' || **b == b'\r').map(|(i, _)| i + rng.usize_below(2)).collect();
                if nls.is_empty() { rng.usize_below(len + 1) } else { (*rng.pick(&nls)).min(len) }
            }
            _ => rng.usize_below(len + 1),
        }
    };
    let torn_at = if config == "torn" { Some(fault_pos(&mut rng)) } else { None };
    let hard = if config == "hard" { Some((fault_pos(&mut rng), rng.below(HARD_KINDS.len() as u64) as u8, rng.chance(1, 4))) } else { None };
    let mode = rng.below(MODES.len() as u64) as u8;
    let eintr = *rng.pick(&[0u64, 0, 20, 100, 300]);
    let via_real_file = config != "hard" && rng.chance(1, 64);
    Case {
        file,
        config: config.to_string(),
        torn_at,
        reader: ReaderSpec::Gen { seed: rng.next_u64(), script: GenScript { mode, eintr_per_1000: eintr, hard } },
        consumer: Consumer {
            extra_after_none: if rng.chance(1, 3) { 1 + rng.below(3) as u8 } else { 0 },
            stop_at_first_err: rng.chance(1, 10),
            nth_at: if rng.chance(1, 8) { Some((rng.usize_below(8), 1 + rng.usize_below(3))) } else { None },
            count_after: if rng.chance(1, 8) { Some(rng.usize_below(12)) } else { None },
            fold_after: if rng.chance(1, 8) { Some(rng.usize_below(6)) } else { None },
        },
        via_real_file,
        via_fifo: via_real_file && len <= 200_000 && rng.chance(1, 4),
        companion: if rng.chance(1, 6) { Some((seed, idx, rng.next_u64())) } else { None },
    }
}

fn case_to_json(c: &Case, trace: &[Dec]) -> Value {
    json!({
        "file": c.file.to_json(),
        "file_bytes_hex": simcore::hex(&c.file.bytes()),
        "config": c.config,
        "torn_at": c.torn_at,
        "reader_trace": trace_to_json(trace),
        "consumer": {"extra_after_none": c.consumer.extra_after_none, "stop_at_first_err": c.consumer.stop_at_first_err,
                     "nth_at": c.consumer.nth_at.map(|(a, j)| json!([a, j])), "count_after": c.consumer.count_after, "fold_after": c.consumer.fold_after},
        "via_real_file": c.via_real_file,
        "via_fifo": c.via_fifo,
        "companion_parser": c.companion.map(|(a, b, d)| json!({"gen_seed": a.to_string(), "gen_idx": b.to_string(), "schedule_seed": d.to_string(),
            "file_bytes_hex": simcore::hex(&companion_file(a, b).bytes())})),
    })
}

fn case_from_json(v: &Value) -> Option<Case> {
    Some(Case {
        file: FileModel::from_json(v.get("file")?)?,
        config: v.get("config")?.as_str()?.to_string(),
        torn_at: v.get("torn_at").and_then(|x| x.as_u64()).map(|x| x as usize),
        reader: ReaderSpec::Trace(trace_from_json(v.get("reader_trace")?)?),
        consumer: Consumer {
            extra_after_none: v.pointer("/consumer/extra_after_none").and_then(|x| x.as_u64()).unwrap_or(0) as u8,
            stop_at_first_err: v.pointer("/consumer/stop_at_first_err").and_then(|x| x.as_bool()).unwrap_or(false),
            nth_at: v.pointer("/consumer/nth_at").and_then(|x| x.as_array()).and_then(|a| Some((a.first()?.as_u64()? as usize, a.get(1)?.as_u64()? as usize))),
            count_after: v.pointer("/consumer/count_after").and_then(|x| x.as_u64()).map(|x| x as usize),
            fold_after: v.pointer("/consumer/fold_after").and_then(|x| x.as_u64()).map(|x| x as usize),
        },
        via_real_file: v.get("via_real_file").and_then(|x| x.as_bool()).unwrap_or(false),
        via_fifo: v.get("via_fifo").and_then(|x| x.as_bool()).unwrap_or(false),
        companion: v.get("companion_parser").filter(|x| x.is_object()).and_then(|c| {
            let g = |k: &str| c.get(k).and_then(|x| x.as_str()).and_then(|x| x.parse::<u64>().ok());
            Some((g("gen_seed")?, g("gen_idx")?, g("schedule_seed")?))
        }),
    })
}

// ------------------------------------------------------------------ worker

fn worker(seed: u64, from: u64, to: u64, tier: &str, scratch: &Path) -> (Value, i32) {
    std::panic::set_hook(Box::new(|info| {
        let lib = info.location().map(|l| l.file().contains("precis-tools/") || l.file().contains("ucd-parse") || l.file().contains("regex")).unwrap_or(false);
        if !lib {
            eprintln!("{}", info);
        }
    }));
    let mut c: BTreeMap<String, u64> = BTreeMap::new();
    let mut bump = |k: &str, n: u64| *c.entry(k.to_string()).or_insert(0) += n;
    let mut distinct: BTreeSet<u64> = BTreeSet::new();
    let mut distinct_nontrivial: BTreeSet<u64> = BTreeSet::new();
    let mut samples: Vec<Value> = vec![];
    let mut violation: Option<Value> = None;
    let mut failing_run: Option<u64> = None;
    for idx in from..to {
        let case = plan_case(seed, idx, tier);
        bump("runs", 1);
        bump(&format!("config_{}", case.config), 1);
        if case.via_real_file {
            bump("via_real_file", 1);
        }
        if let ReaderSpec::Gen { script, .. } = &case.reader {
            bump(&format!("mode_{}", MODES[script.mode as usize]), 1);
        }
        for r in &case.file.rows {
            bump(&format!("rows_{}", r.class()), 1);
        }
        if case.file.header.is_none() {
            bump("probe_empty_file", 1);
        }
        if case.file.rows.is_empty() {
            bump("probe_no_rows", 1);
        }
        let last_term = case.file.rows.last().map(|r| r.term).or(case.file.header.as_ref().map(|h| h.1));
        if last_term == Some(Term::None) {
            bump("probe_file_without_final_terminator", 1);
        }
        // a real file cannot tell a spinning parser from a slow one: the same case goes through the
        // simulated reader first (which bounds polling after end of data) and only then through from_path
        let mut case = case;
        let o = if case.via_real_file {
            let mut sim_first = case.clone();
            sim_first.via_real_file = false;
            let o1 = run_case(&sim_first, Some(scratch));
            if o1.violation.is_some() {
                case = sim_first; // the recorded case is the one that failed
                o1
            } else {
                run_case(&case, Some(scratch))
            }
        } else {
            run_case(&case, Some(scratch))
        };
        bump("items_judged", o.items as u64);
        bump("delivered_ok", o.delivered_ok);
        bump("delivered_err", o.delivered_err);
        bump("reader_steps", o.stats.reads);
        bump("fault_short_read", o.stats.short_reads);
        bump("fault_eintr", o.stats.eintr);
        bump("fault_hard_error", o.stats.hard_errors);
        bump("fault_split_in_char", o.stats.split_in_char);
        bump("fault_split_in_crlf", o.stats.split_in_crlf);
        bump("fault_split_inside_line", o.stats.split_inside_line);
        bump("bytes_read", o.stats.bytes);
        let ncorrupt = case.file.rows.iter().filter(|r| r.corrupt.is_some()).count() as u64 + case.file.header_corrupt.is_some() as u64;
        bump("fault_corrupt_stored_byte(lines)", ncorrupt);
        if case.file.header_corrupt.is_some() {
            bump("fault_corrupt_header", 1);
        }
        if case.torn_at.is_some() {
            bump("fault_torn_file", 1);
            if case.file.torn_expectations(case.torn_at.unwrap()).1 {
                bump("fault_torn_inside_char", 1);
            }
        }
        if o.hard_fired_at_call.is_some() {
            bump("hard_error_fired_runs", 1);
            if o.failure_reported {
                bump("probe_read_failure_reported_by_an_error_item", 1);
            } else {
                bump("probe_read_failure_never_reported_all_rows_still_correct", 1);
            }
            if o.failure_reported_late {
                bump("probe_read_failure_reported_after_the_failing_call", 1);
            }
        }
        bump("probe_rows_after_hard_error", o.rows_after_hard_error);
        bump("probe_rows_after_hard_error_not_in_file", o.of_which_not_in_file);
        if o.max_error_line > 1000 {
            bump("probe_error_item_line_gt_1000", 1);
        }
        if o.max_error_line > 65_536 {
            bump("probe_error_item_line_gt_65536", 1);
        }
        if case.file.rows.len() > 65_536 {
            bump("probe_file_with_more_than_65536_lines", 1);
        }
        if o.line_longer_than_buffer {
            bump("probe_line_longer_than_bufreader", 1);
        }
        if o.longest_line > 65_536 {
            bump("probe_line_longer_than_64KiB", 1);
        }
        if o.longest_line > 1_048_576 {
            bump("probe_line_longer_than_1MiB", 1);
        }
        if o.longest_line >= 1023 && (o.longest_line + 1).next_power_of_two() - o.longest_line <= 2 || o.longest_line.is_power_of_two() {
            bump("probe_longest_line_within_1_of_power_of_two", 1);
        }
        bump("probe_item_after_none_requested", o.asked_after_none);
        if o.used_nth {
            bump("probe_consumer_used_nth", 1);
        }
        if o.used_count {
            bump("probe_consumer_finished_with_count", 1);
        }
        if o.used_fold {
            bump("probe_consumer_drained_with_for_each", 1);
        }
        if o.used_fifo {
            bump("probe_from_path_over_a_fifo", 1);
        }
        if case.companion.is_some() {
            bump("probe_runs_with_interleaved_companion_parser", 1);
            bump("probe_companion_parser_items_judged", o.companion_items);
            bump("probe_companion_parser_steps_on_a_helper_thread", o.companion_thread_steps);
            bump("probe_companion_parser_dropped_half_way_and_recreated", o.companion_recreated);
        }
        distinct.insert(o.history_hash);
        if o.stats.split_inside_line > 0 || o.stats.eintr > 0 || o.stats.hard_errors > 0 || case.torn_at.is_some() || ncorrupt > 0 {
            distinct_nontrivial.insert(o.history_hash);
        }
        if samples.len() < 2 && o.stats.split_inside_line > 0 && case.file.rows.len() <= 3 && !case.file.rows.is_empty() && case.file.bytes().len() < 300 {
            samples.push(json!({"run": idx, "case": case_to_json(&case, &o.trace), "items_judged": o.items}));
        }
        let v = o.violation.or_else(|| if case.config == "strict" { direct_check(&case.file) } else { None });
        if case.config == "strict" {
            bump("direct_parse_rows", case.file.rows.len() as u64);
        }
        if let Some(v) = v {
            violation = Some(json!({"violation": v.to_json(), "run": idx, "case": case_to_json(&case, &o.trace)}));
            failing_run = Some(idx);
            break;
        }
    }
    let out = json!({
        "seed": seed, "from": from, "to": to, "tier": tier,
        "counts": c,
        "distinct": distinct.iter().map(|h| format!("{:016x}", h)).collect::<Vec<_>>(),
        "distinct_nontrivial": distinct_nontrivial.iter().map(|h| format!("{:016x}", h)).collect::<Vec<_>>(),
        "samples": samples,
        "violation": violation,
        "failing_run": failing_run,
    });
    let code = if violation.is_some() { 1 } else { 0 };
    (out, code)
}

// ------------------------------------------------------------------ replay & minimise

fn replay_value(v: &Value, scratch: &Path) -> Result<Option<Violation>, String> {
    let case = case_from_json(v.get("case").ok_or("replay file has no case")?).ok_or("replay file: bad case")?;
    let o = run_case(&case, Some(scratch));
    Ok(o.violation.or_else(|| if case.config == "strict" { direct_check(&case.file) } else { None }))
}

fn cmd_replay(path: &Path) -> i32 {
    let v = match read_json(path) {
        Ok(v) => v,
        Err(e) => {
            eprintln!("HARNESS: {}", e);
            return 2;
        }
    };
    std::panic::set_hook(Box::new(|_| {}));
    match replay_value(&v, &simcore::verif_dir().join("build/tmp")) {
        Err(e) => {
            eprintln!("HARNESS: {}", e);
            2
        }
        Ok(None) => {
            println!("replay: no violation reproduced from {}", path.display());
            0
        }
        Ok(Some(viol)) => {
            println!("replay: reproduced: {}", viol.to_json());
            println!("VIOLATION property=C17 replay={}", path.display());
            1
        }
    }
}

fn same_kind(a: &Violation, kind: &str, class: &str) -> bool {
    a.kind == kind && (a.row_class == class || class.is_empty())
}

fn shrink_case(case: &Case) -> Vec<Case> {
    let mut out = vec![];
    if case.companion.is_some() {
        let mut c = case.clone();
        c.companion = None;
        out.push(c);
    }
    let n = case.file.rows.len();
    // drop rows (halves first, then single rows)
    if n > 4 {
        for (a, b) in [(0, n / 2), (n / 2, n)] {
            let mut c = case.clone();
            c.file.rows.drain(a..b);
            c.file.normalise();
            out.push(c);
        }
    }
    for i in (0..n).rev() {
        let mut c = case.clone();
        c.file.rows.remove(i);
        c.file.normalise();
        out.push(c);
    }
    // undo stored-byte corruption
    if case.file.has_corruption() {
        let mut c = case.clone();
        c.file.header_corrupt = None;
        for r in &mut c.file.rows {
            r.corrupt = None;
        }
        out.push(c);
    }
    // simpler consumer / no real file / no tearing
    if case.consumer.extra_after_none > 0 || case.consumer.stop_at_first_err || case.consumer.nth_at.is_some() || case.consumer.count_after.is_some() || case.consumer.fold_after.is_some() {
        let mut c = case.clone();
        c.consumer = Consumer { extra_after_none: 0, stop_at_first_err: false, nth_at: None, count_after: None, fold_after: None };
        out.push(c);
    }
    // shorter descriptions, ASCII instead of multi-byte
    for i in 0..n {
        if let Body::Good(g) = &case.file.rows[i].body {
            let chars: Vec<char> = g.desc.chars().collect();
            if chars.len() > 1 {
                for keep in [chars.len() / 2, chars.len() - 1] {
                    let mut c = case.clone();
                    if let Body::Good(g2) = &mut c.file.rows[i].body {
                        g2.desc = chars[..keep.max(1)].iter().collect();
                    }
                    out.push(c);
                }
            }
            if !g.desc.is_ascii() {
                let mut c = case.clone();
                if let Body::Good(g2) = &mut c.file.rows[i].body {
                    g2.desc = g.desc.chars().map(|ch| if ch.is_ascii() { ch } else { 'x' }).collect();
                }
                out.push(c);
            }
        }
        if case.file.rows[i].term == Term::CrLf {
            let mut c = case.clone();
            c.file.rows[i].term = Term::Lf;
            out.push(c);
        }
    }
    // reader trace: delete EINTRs, merge adjacent deliveries, plain whole-buffer delivery
    if let ReaderSpec::Trace(t) = &case.reader {
        if !t.is_empty() {
            let mut c = case.clone();
            c.reader = ReaderSpec::Trace(vec![]);
            out.push(c);
        }
        if t.iter().any(|d| *d == Dec::Eintr) {
            let mut c = case.clone();
            c.reader = ReaderSpec::Trace(t.iter().filter(|d| **d != Dec::Eintr).cloned().collect());
            out.push(c);
        }
        for i in 0..t.len().saturating_sub(1) {
            if let (Dec::Deliver(a), Dec::Deliver(b)) = (&t[i], &t[i + 1]) {
                let mut nt = t.clone();
                nt[i] = Dec::Deliver(a + b);
                nt.remove(i + 1);
                let mut c = case.clone();
                c.reader = ReaderSpec::Trace(nt);
                out.push(c);
                if out.len() > 4000 {
                    break;
                }
            }
        }
    }
    if let Some(at) = case.torn_at {
        if at > 0 {
            let mut c = case.clone();
            c.torn_at = Some(at - 1);
            out.push(c);
        }
    }
    out
}

fn cmd_minimise(path: &Path, outp: &Path) -> i32 {
    let v = match read_json(path) {
        Ok(v) => v,
        Err(e) => {
            eprintln!("HARNESS: {}", e);
            return 2;
        }
    };
    std::panic::set_hook(Box::new(|_| {}));
    let scratch = simcore::verif_dir().join("build/tmp");
    let mut case = match v.get("case").and_then(case_from_json) {
        Some(c) => c,
        None => return 2,
    };
    let first = run_case(&case, Some(&scratch));
    let target = match first.violation.clone().or_else(|| if case.config == "strict" { direct_check(&case.file) } else { None }) {
        Some(t) => t,
        None => {
            eprintln!("minimise: input does not fail");
            return 2;
        }
    };
    let mut cur = target.clone();
    let mut budget = 4000;
    let mut progress = true;
    while progress && budget > 0 {
        progress = false;
        for cand in shrink_case(&case) {
            if budget == 0 {
                break;
            }
            budget -= 1;
            let o = run_case(&cand, Some(&scratch));
            let vv = o.violation.or_else(|| if cand.config == "strict" { direct_check(&cand.file) } else { None });
            if let Some(vv) = vv {
                if same_kind(&vv, &target.kind, &target.row_class) {
                    // keep the candidate with the trace it actually produced
                    case = cand;
                    case.reader = ReaderSpec::Trace(o.trace.clone());
                    cur = vv;
                    progress = true;
                    break;
                }
            }
        }
    }
    let trace = match &case.reader {
        ReaderSpec::Trace(t) => t.clone(),
        _ => vec![],
    };
    let mut o = v.clone();
    o["case"] = case_to_json(&case, &trace);
    o["violation"] = cur.to_json();
    o["minimised"] = json!(true);
    if write_json(outp, &o).is_err() {
        return 2;
    }
    0
}

// ------------------------------------------------------------------ driver

fn cmd_driver(args: &[String]) -> i32 {
    let seed: u64 = arg_val(args, "--seed").and_then(|x| x.parse().ok()).unwrap_or_else(simcore::verif_seed);
    let tier = arg_val(args, "--tier").unwrap_or_else(|| "quick".into());
    let runs: u64 = arg_val(args, "--runs").and_then(|x| x.parse().ok()).unwrap_or(if tier == "thorough" { 20_000_000 } else { 200_000 });
    let jobs: usize = arg_val(args, "--jobs").and_then(|x| x.parse().ok()).unwrap_or(16);
    let chunk: u64 = arg_val(args, "--chunk").and_then(|x| x.parse().ok()).unwrap_or(if tier == "thorough" { 20_000 } else { 2_000 });
    let out = PathBuf::from(arg_val(args, "--out").unwrap_or_else(|| "/verif/build/tmp/c17.json".into()));
    let scratch = out.parent().unwrap().join(format!("c17-{}", std::process::id()));
    let t0 = std::time::Instant::now();
    let nchunks = (runs + chunk - 1) / chunk;
    let exe = std::env::current_exe().unwrap();
    let tier2 = tier.clone();
    let scratch2 = scratch.clone();
    let mk = move |n: u64, of: &Path| {
        let mut c = std::process::Command::new(&exe);
        c.args(["worker", "--seed", &seed.to_string(), "--from", &(n * chunk).to_string(), "--to", &((n + 1) * chunk).min(runs).to_string(), "--tier", &tier2, "--scratch"]).arg(&scratch2).arg("--out").arg(of);
        c
    };
    let results = match run_chunks(nchunks, jobs, &scratch, std::time::Duration::from_secs(900), &mk) {
        Ok(r) => r,
        Err(e) => {
            eprintln!("HARNESS: {}", e);
            return 2;
        }
    };
    let first_bad = results.iter().find(|(_, r)| r.code != 0).map(|(n, _)| *n);
    let mut tot: BTreeMap<String, u64> = BTreeMap::new();
    let mut distinct: BTreeSet<String> = BTreeSet::new();
    let mut nontrivial: BTreeSet<String> = BTreeSet::new();
    let mut samples = vec![];
    let mut violation: Option<Value> = None;
    let mut harness: Option<String> = None;
    for (n, r) in &results {
        if first_bad.map(|b| *n > b).unwrap_or(false) {
            continue;
        }
        if r.code != 0 && r.code != 1 {
            harness = Some(r.value.get("harness_error").and_then(|x| x.as_str()).unwrap_or("worker failed").to_string());
            continue;
        }
        simcore::pool::add_counts(&mut tot, r.value.get("counts").unwrap_or(&Value::Null));
        for (name, set) in [("distinct", &mut distinct), ("distinct_nontrivial", &mut nontrivial)] {
            if let Some(a) = r.value.get(name).and_then(|x| x.as_array()) {
                for h in a {
                    if let Some(s) = h.as_str() {
                        set.insert(s.to_string());
                    }
                }
            }
        }
        if samples.len() < 3 {
            if let Some(a) = r.value.get("samples").and_then(|x| x.as_array()) {
                samples.extend(a.iter().take(1).cloned());
            }
        }
        if r.code == 1 && violation.is_none() {
            violation = r.value.get("violation").cloned();
        }
    }
    let wall = t0.elapsed().as_secs_f64();
    let mut res = json!({
        "engine": "c17_reader", "seed": seed, "tier": tier, "runs_requested": runs, "chunk": chunk, "jobs": jobs,
        "counts": tot, "distinct": distinct.len(), "distinct_nontrivial": nontrivial.len(), "samples": samples,
        "wall_s": wall, "runs_per_hour": if wall > 0.0 { (tot.get("runs").copied().unwrap_or(0) as f64 / wall * 3600.0) as u64 } else { 0 },
    });
    let mut code = 0;
    if let Some(h) = harness {
        res["harness_error"] = json!(h);
        code = 2;
    }
    if let Some(v) = violation {
        let key = v.pointer("/violation/key").and_then(|x| x.as_str()).unwrap_or("").to_string();
        let known = simcore::evidence::known_findings("C17");
        if let Some((_, what)) = known.iter().find(|(k, _)| *k == key) {
            res["known_finding"] = json!({"key": key, "what": what});
        } else {
            code = 1;
            let rdir = simcore::evidence::replay_dir();
            let _ = std::fs::create_dir_all(&rdir);
            let rpath = rdir.join(format!("C17-{}{}.json", seed, simcore::evidence::replay_tag()));
            let mut file = json!({"property": "C17", "engine": "c17_reader", "seed": seed, "tier": tier, "how_to_replay": "/verif/check --replay <this file>"});
            file["case"] = v["case"].clone();
            file["violation"] = v["violation"].clone();
            file["run"] = v["run"].clone();
            let _ = write_json(&rpath, &file);
            // minimise, then make sure the minimised file still fails in a fresh process
            let mpath = rdir.join(format!("C17-{}{}.min.json", seed, simcore::evidence::replay_tag()));
            let exe = std::env::current_exe().unwrap();
            // the minimiser gets two minutes; a case that hangs outside the simulated reader must not hang the check
            let ok = std::process::Command::new("timeout").arg("120").arg(&exe).arg("minimise").arg(&rpath).arg("--out").arg(&mpath).status().map(|s| s.code() == Some(0)).unwrap_or(false);
            if ok && std::process::Command::new("timeout").arg("60").arg(&exe).arg("replay").arg(&mpath).output().map(|o| o.status.code() == Some(1)).unwrap_or(false) {
                let _ = std::fs::rename(&mpath, &rpath);
            } else {
                let _ = std::fs::remove_file(&mpath);
            }
            res["violation"] = read_json(&rpath).ok().and_then(|f| f.get("violation").cloned()).unwrap_or(v["violation"].clone());
            res["replay"] = json!(rpath.display().to_string());
        }
    }
    let _ = std::fs::remove_dir_all(&scratch);
    let _ = write_json(&out, &res);
    code
}

fn main() {
    let args: Vec<String> = std::env::args().collect();
    let code = match args.get(1).map(|s| s.as_str()).unwrap_or("") {
        "worker" => {
            let seed = arg_val(&args, "--seed").and_then(|x| x.parse().ok()).unwrap_or_else(simcore::verif_seed);
            let from = arg_val(&args, "--from").and_then(|x| x.parse().ok()).unwrap_or(0);
            let to = arg_val(&args, "--to").and_then(|x| x.parse().ok()).unwrap_or(1);
            let tier = arg_val(&args, "--tier").unwrap_or_else(|| "quick".into());
            let scratch = PathBuf::from(arg_val(&args, "--scratch").unwrap_or_else(|| "/verif/build/tmp".into()));
            let (v, code) = worker(seed, from, to, &tier, &scratch);
            match arg_val(&args, "--out") {
                Some(p) => {
                    let _ = write_json(Path::new(&p), &v);
                }
                None => println!("{}", serde_json::to_string(&v).unwrap()),
            }
            code
        }
        "driver" => cmd_driver(&args),
        "replay" => cmd_replay(Path::new(&args[2])),
        "minimise" => cmd_minimise(Path::new(&args[2]), Path::new(&arg_val(&args, "--out").unwrap_or_else(|| format!("{}.min.json", args[2])))),
        _ => {
            eprintln!("usage: c17_reader worker|driver|replay|minimise …");
            2
        }
    };
    std::process::exit(code);
}
