// One execution of a C16 workload: the simulated caller threads, spawned as the plan says,
// each issuing its call list and recording invoke/return events stamped with a global sequence
// number. Included with #[path] by both engines; `crate::thr` selects the thread API
// (shuttle's scheduler-owned threads, or std threads under Miri's seeded scheduler).

use crate::calls::{do_call, Instances};
use crate::thr;
use simcore::c16::{Event, Workload};
use std::sync::atomic::{AtomicU64, Ordering};
use std::sync::{Arc, Mutex};

struct ExecShared {
    w: Arc<Workload>,
    /// "shared_ref" API form: created once before any thread starts, used by reference by all
    shared: Instances,
    /// global event sequence number; Relaxed on purpose: it must not create happens-before
    /// edges that could hide a data race in the library from Miri
    seq: AtomicU64,
    handles: Mutex<Vec<thr::JoinHandle<Vec<Event>>>>,
}

fn thread_body(sh: Arc<ExecShared>, t: usize, mine: Instances) -> Vec<Event> {
    let w = sh.w.clone();
    let plan = &w.threads[t];
    let n = plan.calls.len();
    let children: Vec<usize> = (t + 1..w.threads.len()).filter(|&c| w.threads[c].parent == t).collect();
    let mut evs = Vec::with_capacity(n);
    for i in 0..=n {
        for &c in &children {
            if w.threads[c].after.min(n) == i {
                // "copied_in": the instance the child will use is created here, by the spawning thread
                let for_child = Instances::create();
                let sh2 = sh.clone();
                let h = thr::spawn(move || thread_body(sh2, c, for_child));
                sh.handles.lock().unwrap().push(h);
            }
        }
        if i == n {
            break;
        }
        let call = &plan.calls[i];
        let invoke_seq = sh.seq.fetch_add(1, Ordering::Relaxed);
        let outcome = do_call(&w, call, &sh.shared, &mine);
        let return_seq = sh.seq.fetch_add(1, Ordering::Relaxed);
        evs.push(Event { thread: t, idx: i, invoke_seq, return_seq, call: call.clone(), outcome });
        thr::pause();
    }
    evs
}

/// Runs the workload to completion on the current (root) thread plus spawned threads and
/// returns the merged history ordered by invoke sequence number.
pub fn run_execution(w: Arc<Workload>) -> Vec<Event> {
    let sh = Arc::new(ExecShared { w, shared: Instances::create(), seq: AtomicU64::new(0), handles: Mutex::new(vec![]) });
    // a scheduling point even for an empty root plan (shuttle insists on at least one)
    thr::pause();
    let mut all = thread_body(sh.clone(), 0, Instances::create());
    loop {
        let h = sh.handles.lock().unwrap().pop();
        match h {
            None => break,
            Some(h) => match h.join() {
                Ok(evs) => all.extend(evs),
                Err(_) => panic!("HARNESS: simulated thread panicked outside the library call"),
            },
        }
    }
    all.sort_by_key(|e| e.invoke_seq);
    all
}
