// Shared by the shuttle engine (linked against the shadow build of precis-profiles, where
// lazy_static is the shuttle seam) and by the Miri / cold-start binaries (linked against the
// unmodified crates). Included with #[path]; contains the only code that touches the library.

use precis_core::profile::{PrecisFastInvocation, Profile};
use precis_core::Error;
use precis_profiles::{Nickname, OpaqueString, UsernameCaseMapped, UsernameCasePreserved};
use simcore::c16::{Call, Outcome, Workload};
use std::borrow::Cow;

/// One long-lived instance of every profile. (Only `Clone` is asked of the profile types.)
#[derive(Clone, Debug, Default)]
pub struct Instances {
    pub ucm: UsernameCaseMapped,
    pub ucp: UsernameCasePreserved,
    pub os: OpaqueString,
    pub nn: Nickname,
}

impl Instances {
    pub fn create() -> Self {
        Instances { ucm: UsernameCaseMapped::new(), ucp: UsernameCasePreserved::new(), os: OpaqueString::new(), nn: Nickname::new() }
    }
}

fn conv_str(r: Result<Cow<'_, str>, Error>) -> Outcome {
    match r {
        Ok(c) => Outcome::OkStr(c.into_owned()),
        Err(e) => Outcome::Err(format!("{:?}", e)),
    }
}

fn conv_bool(r: Result<bool, Error>) -> Outcome {
    match r {
        Ok(b) => Outcome::OkBool(b),
        Err(e) => Outcome::Err(format!("{:?}", e)),
    }
}

/// Uniform view of "a way to reach a profile": an instance, or the static fast-invocation API.
trait Target {
    fn prep<'a, S: Into<Cow<'a, str>>>(&self, s: S) -> Result<Cow<'a, str>, Error>;
    fn enf<'a, S: Into<Cow<'a, str>>>(&self, s: S) -> Result<Cow<'a, str>, Error>;
    fn cmp<A: AsRef<str>, B: AsRef<str>>(&self, a: A, b: B) -> Result<bool, Error>;
}

struct Inst<'p, P>(&'p P);
impl<'p, P: Profile> Target for Inst<'p, P> {
    fn prep<'a, S: Into<Cow<'a, str>>>(&self, s: S) -> Result<Cow<'a, str>, Error> {
        self.0.prepare(s)
    }
    fn enf<'a, S: Into<Cow<'a, str>>>(&self, s: S) -> Result<Cow<'a, str>, Error> {
        self.0.enforce(s)
    }
    fn cmp<A: AsRef<str>, B: AsRef<str>>(&self, a: A, b: B) -> Result<bool, Error> {
        self.0.compare(a, b)
    }
}

struct Stat<P>(std::marker::PhantomData<P>);
impl<P: PrecisFastInvocation> Target for Stat<P> {
    fn prep<'a, S: Into<Cow<'a, str>>>(&self, s: S) -> Result<Cow<'a, str>, Error> {
        <P as PrecisFastInvocation>::prepare(s)
    }
    fn enf<'a, S: Into<Cow<'a, str>>>(&self, s: S) -> Result<Cow<'a, str>, Error> {
        <P as PrecisFastInvocation>::enforce(s)
    }
    fn cmp<A: AsRef<str>, B: AsRef<str>>(&self, a: A, b: B) -> Result<bool, Error> {
        <P as PrecisFastInvocation>::compare(a, b)
    }
}

fn unary<T: Target>(t: &T, enforce: bool, fa: u8, a: &str) -> Outcome {
    macro_rules! go {
        ($x:expr) => {
            conv_str(if enforce { t.enf($x) } else { t.prep($x) })
        };
    }
    match fa {
        0 => go!(a),
        1 => go!(a.to_string()),
        2 => {
            let owned = a.to_string();
            go!(&owned)
        }
        3 => go!(Cow::Borrowed(a)),
        4 => go!(Cow::<str>::Owned(a.to_string())),
        5 => {
            // an owned String whose capacity exceeds its length (a reused buffer)
            let mut owned = String::with_capacity(a.len() * 2 + 64);
            owned.push_str(a);
            go!(owned)
        }
        _ => {
            let mut owned = String::with_capacity(a.len() + 17);
            owned.push_str(a);
            go!(Cow::<str>::Owned(owned))
        }
    }
}

fn second<T: Target, A: AsRef<str>>(t: &T, fb: u8, x: A, b: &str) -> Outcome {
    match fb {
        0 => conv_bool(t.cmp(x, b)),
        1 => conv_bool(t.cmp(x, b.to_string())),
        2 => {
            let y: Cow<'_, str> = if b.len() % 2 == 0 { Cow::Borrowed(b) } else { Cow::Owned(b.to_string()) };
            conv_bool(t.cmp(x, y))
        }
        _ => {
            let y: Box<str> = b.into();
            conv_bool(t.cmp(x, y))
        }
    }
}

fn binary<T: Target>(t: &T, fa: u8, fb: u8, a: &str, b: &str) -> Outcome {
    match fa {
        0 => second(t, fb, a, b),
        1 => second(t, fb, a.to_string(), b),
        2 => {
            let x: Cow<'_, str> = if a.len() % 2 == 0 { Cow::Owned(a.to_string()) } else { Cow::Borrowed(a) };
            second(t, fb, x, b)
        }
        _ => {
            let x: Box<str> = a.into();
            second(t, fb, x, b)
        }
    }
}

fn on_target<T: Target>(t: &T, c: &Call, a: &str, b: &str) -> Outcome {
    match c.kind {
        0 => unary(t, false, c.fa, a),
        1 => unary(t, true, c.fa, a),
        _ => binary(t, c.fa, c.fb, a, b),
    }
}

fn on_instance<P: Profile>(p: &P, c: &Call, a: &str, b: &str) -> Outcome {
    on_target(&Inst(p), c, a, b)
}

fn on_static<P: PrecisFastInvocation>(c: &Call, a: &str, b: &str) -> Outcome {
    on_target(&Stat::<P>(std::marker::PhantomData), c, a, b)
}

fn on_profile<P>(c: &Call, a: &str, b: &str, shared: &P, mine: &P, new: fn() -> P) -> Outcome
where
    P: Profile + PrecisFastInvocation + Default + Clone,
{
    match c.api {
        0 => on_static::<P>(c, a, b),
        1 => on_instance(&new(), c, a, b),
        2 => on_instance(&P::default(), c, a, b),
        3 => on_instance(shared, c, a, b),
        4 => on_instance(mine, c, a, b),
        _ => on_instance(&mine.clone(), c, a, b),
    }
}

fn dispatch(w: &Workload, c: &Call, shared: &Instances, mine: &Instances) -> Outcome {
    let a = w.pool[c.a].as_str();
    let b = if c.kind == 2 { w.pool[c.b].as_str() } else { "" };
    match c.profile {
        0 => on_profile(c, a, b, &shared.ucm, &mine.ucm, UsernameCaseMapped::new),
        1 => on_profile(c, a, b, &shared.ucp, &mine.ucp, UsernameCasePreserved::new),
        2 => on_profile(c, a, b, &shared.os, &mine.os, OpaqueString::new),
        _ => on_profile(c, a, b, &shared.nn, &mine.nn, Nickname::new),
    }
}

/// The one place where the library is called. A panic unwinding out of the library is caught
/// here, inside the calling (simulated) thread, and is an outcome like any other for C16.
pub fn do_call(w: &Workload, c: &Call, shared: &Instances, mine: &Instances) -> Outcome {
    match std::panic::catch_unwind(std::panic::AssertUnwindSafe(|| dispatch(w, c, shared, mine))) {
        Ok(o) => o,
        Err(_) => Outcome::Panicked,
    }
}
