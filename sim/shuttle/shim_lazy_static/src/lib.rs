//! Seam for Engine A of the C16 check: `lazy_static!` backed by `shuttle::sync::Once`.
//!
//! `vsync` / `vthread` are the targets of the *instrumented* build (sim/shuttle_i): when the
//! library sources contain `std::sync::…`, `std::thread::…` or `thread_local!`, `./check`
//! compiles a rewritten copy in which those paths point here, so that every lock, atomic access
//! and thread-local becomes a scheduling point / per-simulated-thread object under shuttle.
//! The unmodified repository has no such site; the rewrite is then the identity.
pub use shuttle::lazy_static::{initialize, LazyStatic};

/// True on a thread that the shuttle scheduler runs as part of an execution. Library code that
/// starts real OS threads of its own (`std::thread::scope`, a thread pool) runs outside; there the
/// shim falls back to the real primitives instead of panicking, so that a change which is
/// correct but internally parallel cannot look like a violation.
pub fn in_shuttle() -> bool {
    !matches!(
        shuttle_engine::runtime::execution::ExecutionState::try_with(|_| ()),
        Err(shuttle_engine::runtime::execution::ExecutionStateBorrowError::NotSet)
    )
}

/// True (once) if, since the last call, a simulated thread had to be switched out while a panic
/// was unwinding in it (vendored engine, `maybe_yield`): that execution is not a faithful
/// simulation, because `std::thread::panicking()` is shared by all simulated threads.
pub fn blocked_while_panicking() -> bool {
    shuttle_engine::runtime::execution::BLOCKED_WHILE_PANICKING.swap(false, std::sync::atomic::Ordering::Relaxed)
}

/// A lazy static cell: shuttle's scheduler-controlled `Lazy` inside an execution, a plain
/// `std::sync::OnceLock` outside.
pub struct Lazy<T: Sync + 'static> {
    sim: shuttle::lazy_static::Lazy<T>,
    real: std::sync::OnceLock<T>,
    init: fn() -> T,
}

impl<T: Sync + 'static> Lazy<T> {
    pub const fn new(init: fn() -> T) -> Self {
        Lazy { sim: shuttle::lazy_static::Lazy::new(init), real: std::sync::OnceLock::new(), init }
    }
    pub fn get(&'static self) -> &'static T {
        if in_shuttle() {
            self.sim.get()
        } else {
            self.real.get_or_init(self.init)
        }
    }
}

impl<T: Sync + 'static> std::fmt::Debug for Lazy<T> {
    fn fmt(&self, f: &mut std::fmt::Formatter<'_>) -> std::fmt::Result {
        f.write_str("Lazy(..)")
    }
}

/// The `lazy_static!` macro of the lazy_static crate (v1.4 surface), over [`Lazy`].
#[macro_export]
macro_rules! lazy_static {
    ($(#[$attr:meta])* static ref $N:ident : $T:ty = $e:expr; $($t:tt)*) => {
        $crate::__lazy_static_internal!($(#[$attr])* () static ref $N : $T = $e; $($t)*);
    };
    ($(#[$attr:meta])* pub static ref $N:ident : $T:ty = $e:expr; $($t:tt)*) => {
        $crate::__lazy_static_internal!($(#[$attr])* (pub) static ref $N : $T = $e; $($t)*);
    };
    ($(#[$attr:meta])* pub ($($vis:tt)+) static ref $N:ident : $T:ty = $e:expr; $($t:tt)*) => {
        $crate::__lazy_static_internal!($(#[$attr])* (pub ($($vis)+)) static ref $N : $T = $e; $($t)*);
    };
    () => ()
}

#[macro_export]
#[doc(hidden)]
macro_rules! __lazy_static_internal {
    ($(#[$attr:meta])* ($($vis:tt)*) static ref $N:ident : $T:ty = $e:expr; $($t:tt)*) => {
        $crate::__lazy_static_internal!(@MAKE TY, $(#[$attr])*, ($($vis)*), $N);
        $crate::__lazy_static_internal!(@TAIL, $N : $T = $e);
        $crate::lazy_static!($($t)*);
    };
    (@TAIL, $N:ident : $T:ty = $e:expr) => {
        impl ::std::ops::Deref for $N {
            type Target = $T;
            fn deref(&self) -> &$T {
                #[inline(always)]
                fn __static_ref_initialize() -> $T { $e }
                #[inline(always)]
                fn __stability() -> &'static $T {
                    static LAZY: $crate::Lazy<$T> = $crate::Lazy::new(__static_ref_initialize);
                    LAZY.get()
                }
                __stability()
            }
        }
        impl $crate::LazyStatic for $N {
            fn initialize(lazy: &Self) {
                let _ = &**lazy;
            }
        }
    };
    (@MAKE TY, $(#[$attr:meta])*, ($($vis:tt)*), $N:ident) => {
        #[allow(missing_copy_implementations)]
        #[allow(non_camel_case_types)]
        #[allow(dead_code)]
        $(#[$attr])*
        $($vis)* struct $N {__private_field: ()}
        #[doc(hidden)]
        $($vis)* static $N: $N = $N {__private_field: ()};
    };
    () => ()
}

/// Drop-in for `std::sync`: shuttle's scheduler-aware primitives, plus `OnceLock`/`LazyLock`
/// (which shuttle does not provide) built on `shuttle::sync::Once`.
pub mod vsync {
    pub use shuttle::sync::*;
    use std::cell::UnsafeCell;

    /// `std::sync::OnceLock` whose initialisation race is decided by the shuttle scheduler.
    /// Like shuttle's own `lazy_static`, the value lives in the *execution's* storage: every
    /// execution sees a first use, and the value is dropped when its execution ends - not in
    /// the middle of the next one, where a channel endpoint or lock inside it would wake tasks
    /// that merely share the numbers of the tasks it once knew.
    pub struct OnceLock<T> {
        once: shuttle::sync::Once,
        /// used instead when called from a real OS thread outside the simulation
        real: std::sync::OnceLock<T>,
    }
    struct Slot<T>(T);
    unsafe impl<T: Send + Sync> Sync for OnceLock<T> {}
    unsafe impl<T: Send> Send for OnceLock<T> {}
    impl<T: 'static> OnceLock<T> {
        pub const fn new() -> Self {
            OnceLock { once: shuttle::sync::Once::new(), real: std::sync::OnceLock::new() }
        }
        fn key(&self) -> shuttle_engine::runtime::storage::StorageKey {
            shuttle_engine::runtime::storage::StorageKey(self as *const _ as usize, 0x51)
        }
        fn stored(&self) -> Option<&T> {
            let key = self.key();
            shuttle_engine::runtime::execution::ExecutionState::with(|s| {
                // the slot is never removed before the execution ends, and never moved
                s.get_storage::<_, Slot<T>>(key).map(|slot| unsafe { &*(&slot.0 as *const T) })
            })
        }
        pub fn get(&self) -> Option<&T> {
            if !crate::in_shuttle() {
                return self.real.get();
            }
            if self.once.is_completed() {
                self.stored()
            } else {
                None
            }
        }
        pub fn get_or_init<F: FnOnce() -> T>(&self, f: F) -> &T {
            if !crate::in_shuttle() {
                return self.real.get_or_init(f);
            }
            let key = self.key();
            self.once.call_once(|| {
                let value = f();
                shuttle_engine::runtime::execution::ExecutionState::with(|s| s.init_storage(key, Slot(value)));
            });
            self.stored().expect("OnceLock initialised")
        }
        /// (`once_cell`'s name; unstable in std) - `f` may run in more than one thread if they
        /// race for the first use, the first value stored wins
        pub fn get_or_try_init<E, F: FnOnce() -> Result<T, E>>(&self, f: F) -> Result<&T, E> {
            if let Some(v) = self.get() {
                return Ok(v);
            }
            let v = f()?;
            Ok(self.get_or_init(|| v))
        }
        pub fn set(&self, value: T) -> Result<(), T> {
            if !crate::in_shuttle() {
                return self.real.set(value);
            }
            let key = self.key();
            let mut v = Some(value);
            self.once.call_once(|| {
                let value = v.take().unwrap();
                shuttle_engine::runtime::execution::ExecutionState::with(|s| s.init_storage(key, Slot(value)));
            });
            match v {
                None => Ok(()),
                Some(v) => Err(v),
            }
        }
    }
    impl<T: 'static> Default for OnceLock<T> {
        fn default() -> Self {
            Self::new()
        }
    }
    impl<T: std::fmt::Debug> std::fmt::Debug for OnceLock<T> {
        fn fmt(&self, f: &mut std::fmt::Formatter<'_>) -> std::fmt::Result {
            f.write_str("OnceLock(..)")
        }
    }

    /// `std::sync::LazyLock` on the same footing.
    pub struct LazyLock<T, F = fn() -> T> {
        cell: OnceLock<T>,
        init: F,
    }
    unsafe impl<T: Send + Sync, F: Send + Sync> Sync for LazyLock<T, F> {}
    impl<T: 'static, F: Fn() -> T> LazyLock<T, F> {
        pub const fn new(f: F) -> Self {
            LazyLock { cell: OnceLock::new(), init: f }
        }
        pub fn force(this: &Self) -> &T {
            this.cell.get_or_init(|| (this.init)())
        }
    }
    impl<T: 'static, F: Fn() -> T> std::ops::Deref for LazyLock<T, F> {
        type Target = T;
        fn deref(&self) -> &T {
            LazyLock::force(self)
        }
    }
}

/// Drop-in for `once_cell::sync` in the instrumented build.
pub mod vonce {
    pub type Lazy<T, F = fn() -> T> = super::vsync::LazyLock<T, F>;
    pub type OnceCell<T> = super::vsync::OnceLock<T>;
}

/// Drop-in for the `thread_local` crate in the instrumented build. That crate tells threads apart
/// by an id it keeps in a real thread-local; all simulated threads live on one OS thread and would
/// share one value (a scratch buffer borrowed by two "threads" at once). Here the value belongs
/// to the simulated thread of the current execution.
pub mod vtls {
    use std::collections::BTreeMap;
    use std::sync::Mutex;

    static EXECUTION: std::sync::atomic::AtomicU64 = std::sync::atomic::AtomicU64::new(1);
    /// Called by the harness at the start of every execution.
    pub fn new_execution() {
        EXECUTION.fetch_add(1, std::sync::atomic::Ordering::Relaxed);
    }
    fn me() -> (u64, u64) {
        if crate::in_shuttle() {
            let t: usize = shuttle_engine::runtime::execution::ExecutionState::me().into();
            (EXECUTION.load(std::sync::atomic::Ordering::Relaxed), t as u64)
        } else {
            thread_local!(static ID: u64 = { static N: std::sync::atomic::AtomicU64 = std::sync::atomic::AtomicU64::new(0); N.fetch_add(1, std::sync::atomic::Ordering::Relaxed) });
            (0, ID.with(|i| *i))
        }
    }

    pub struct ThreadLocal<T: Send> {
        slots: Mutex<BTreeMap<(u64, u64), Box<T>>>,
    }
    unsafe impl<T: Send> Sync for ThreadLocal<T> {}
    impl<T: Send> ThreadLocal<T> {
        pub const fn new() -> Self {
            ThreadLocal { slots: Mutex::new(BTreeMap::new()) }
        }
        pub fn with_capacity(_n: usize) -> Self {
            Self::new()
        }
        pub fn get(&self) -> Option<&T> {
            let g = self.slots.lock().unwrap_or_else(|e| e.into_inner());
            // a slot is boxed and never removed while `self` is shared
            g.get(&me()).map(|b| unsafe { &*(&**b as *const T) })
        }
        pub fn get_or<F: FnOnce() -> T>(&self, create: F) -> &T {
            if let Some(v) = self.get() {
                return v;
            }
            let v = Box::new(create());
            let mut g = self.slots.lock().unwrap_or_else(|e| e.into_inner());
            let b = g.entry(me()).or_insert(v);
            unsafe { &*(&**b as *const T) }
        }
        pub fn get_or_try<F: FnOnce() -> Result<T, E>, E>(&self, create: F) -> Result<&T, E> {
            if let Some(v) = self.get() {
                return Ok(v);
            }
            let v = create()?;
            Ok(self.get_or(|| v))
        }
        pub fn get_or_default(&self) -> &T
        where
            T: Default,
        {
            self.get_or(T::default)
        }
        pub fn clear(&mut self) {
            self.slots.get_mut().unwrap_or_else(|e| e.into_inner()).clear();
        }
        /// values of the current execution's threads
        pub fn iter_mut(&mut self) -> impl Iterator<Item = &mut T> {
            let cur = EXECUTION.load(std::sync::atomic::Ordering::Relaxed);
            let shuttle = crate::in_shuttle();
            self.slots.get_mut().unwrap_or_else(|e| e.into_inner()).iter_mut().filter(move |(k, _)| !shuttle || k.0 == cur).map(|(_, b)| &mut **b)
        }
    }
    impl<T: Send> Default for ThreadLocal<T> {
        fn default() -> Self {
            Self::new()
        }
    }
    impl<T: Send> std::fmt::Debug for ThreadLocal<T> {
        fn fmt(&self, f: &mut std::fmt::Formatter<'_>) -> std::fmt::Result {
            f.write_str("ThreadLocal(..)")
        }
    }
    pub type CachedThreadLocal<T> = ThreadLocal<T>;
}

/// Drop-in for `parking_lot` in the instrumented build (`Mutex`, `RwLock` and their guards; no
/// poisoning, guards returned directly). A real parking_lot lock held across a scheduling point
/// would block the one OS thread that all simulated threads share.
pub mod vpl {
    use std::sync::TryLockError;
    pub type MutexGuard<'a, T> = shuttle::sync::MutexGuard<'a, T>;
    pub type RwLockReadGuard<'a, T> = shuttle::sync::RwLockReadGuard<'a, T>;
    pub type RwLockWriteGuard<'a, T> = shuttle::sync::RwLockWriteGuard<'a, T>;

    pub struct Mutex<T: ?Sized>(shuttle::sync::Mutex<T>);
    impl<T> Mutex<T> {
        pub const fn new(v: T) -> Self {
            Mutex(shuttle::sync::Mutex::new(v))
        }
        pub fn into_inner(self) -> T {
            self.0.into_inner().unwrap_or_else(|e| e.into_inner())
        }
    }
    impl<T: ?Sized> Mutex<T> {
        pub fn lock(&self) -> MutexGuard<'_, T> {
            self.0.lock().unwrap_or_else(|e| e.into_inner())
        }
        pub fn try_lock(&self) -> Option<MutexGuard<'_, T>> {
            match self.0.try_lock() {
                Ok(g) => Some(g),
                Err(TryLockError::Poisoned(e)) => Some(e.into_inner()),
                Err(TryLockError::WouldBlock) => None,
            }
        }
        pub fn get_mut(&mut self) -> &mut T {
            self.0.get_mut().unwrap_or_else(|e| e.into_inner())
        }
    }
    impl<T: Default> Default for Mutex<T> {
        fn default() -> Self {
            Mutex::new(T::default())
        }
    }
    impl<T: ?Sized> std::fmt::Debug for Mutex<T> {
        fn fmt(&self, f: &mut std::fmt::Formatter<'_>) -> std::fmt::Result {
            f.write_str("Mutex(..)")
        }
    }
    pub const fn const_mutex<T>(v: T) -> Mutex<T> {
        Mutex::new(v)
    }

    pub struct RwLock<T: ?Sized>(shuttle::sync::RwLock<T>);
    impl<T> RwLock<T> {
        pub const fn new(v: T) -> Self {
            RwLock(shuttle::sync::RwLock::new(v))
        }
        pub fn into_inner(self) -> T {
            self.0.into_inner().unwrap_or_else(|e| e.into_inner())
        }
    }
    impl<T: ?Sized> RwLock<T> {
        pub fn read(&self) -> RwLockReadGuard<'_, T> {
            self.0.read().unwrap_or_else(|e| e.into_inner())
        }
        pub fn write(&self) -> RwLockWriteGuard<'_, T> {
            self.0.write().unwrap_or_else(|e| e.into_inner())
        }
        pub fn try_read(&self) -> Option<RwLockReadGuard<'_, T>> {
            match self.0.try_read() {
                Ok(g) => Some(g),
                Err(TryLockError::Poisoned(e)) => Some(e.into_inner()),
                Err(TryLockError::WouldBlock) => None,
            }
        }
        pub fn try_write(&self) -> Option<RwLockWriteGuard<'_, T>> {
            match self.0.try_write() {
                Ok(g) => Some(g),
                Err(TryLockError::Poisoned(e)) => Some(e.into_inner()),
                Err(TryLockError::WouldBlock) => None,
            }
        }
        pub fn get_mut(&mut self) -> &mut T {
            self.0.get_mut().unwrap_or_else(|e| e.into_inner())
        }
    }
    impl<T: Default> Default for RwLock<T> {
        fn default() -> Self {
            RwLock::new(T::default())
        }
    }
    impl<T: ?Sized> std::fmt::Debug for RwLock<T> {
        fn fmt(&self, f: &mut std::fmt::Formatter<'_>) -> std::fmt::Result {
            f.write_str("RwLock(..)")
        }
    }
    pub const fn const_rwlock<T>(v: T) -> RwLock<T> {
        RwLock::new(v)
    }
}

/// Drop-in for `std::thread`.
pub mod vthread {
    pub use shuttle::thread::*;
}

/// Drop-in for `std::time` in the instrumented build: a simulated clock. Every reading of the
/// clock advances it by a jump drawn from a PRNG seeded by the harness for each execution
/// (microseconds most of the time; seconds, hours, days and years now and then), so that code
/// whose result depends on elapsed time meets clock jumps deterministically and replayably.
pub mod vtime {
    pub use std::time::Duration;
    use std::sync::atomic::{AtomicU64, Ordering};

    static NOW_NANOS: AtomicU64 = AtomicU64::new(1_000_000_000_000);
    static RNG: AtomicU64 = AtomicU64::new(0x9e3779b97f4a7c15);
    static READS: AtomicU64 = AtomicU64::new(0);
    static BIG_JUMPS: AtomicU64 = AtomicU64::new(0);

    /// Called by the harness at the start of every execution.
    pub fn reseed(seed: u64) {
        RNG.store(seed | 1, Ordering::Relaxed);
    }
    /// (clock readings, jumps of one second or more) since process start
    pub fn stats() -> (u64, u64) {
        (READS.load(Ordering::Relaxed), BIG_JUMPS.load(Ordering::Relaxed))
    }
    fn next() -> u64 {
        let mut z = RNG.fetch_add(0x9e3779b97f4a7c15, Ordering::Relaxed).wrapping_add(0x9e3779b97f4a7c15);
        z = (z ^ (z >> 30)).wrapping_mul(0xbf58476d1ce4e5b9);
        z = (z ^ (z >> 27)).wrapping_mul(0x94d049bb133111eb);
        z ^ (z >> 31)
    }
    fn read_clock() -> u64 {
        READS.fetch_add(1, Ordering::Relaxed);
        let r = next();
        let jump = match r % 100 {
            0..=69 => 1_000 + (r >> 8) % 1_000_000,                          // 1 us .. 1 ms
            70..=84 => 1_000_000_000 + (r >> 8) % 1_000_000_000,             // 1 .. 2 s
            85..=94 => 60_000_000_000 + (r >> 8) % 3_540_000_000_000,       // 1 min .. 1 h
            95..=98 => 86_400_000_000_000 + (r >> 8) % 2_505_600_000_000_000, // 1 .. 30 days
            _ => 315_360_000_000_000_000,                                    // ten years
        };
        if jump >= 1_000_000_000 {
            BIG_JUMPS.fetch_add(1, Ordering::Relaxed);
        }
        NOW_NANOS.fetch_add(jump, Ordering::Relaxed) + jump
    }

    #[derive(Clone, Copy, Debug, PartialEq, Eq, PartialOrd, Ord, Hash)]
    pub struct Instant(u64);
    impl Instant {
        pub fn now() -> Instant {
            Instant(read_clock())
        }
        pub fn elapsed(&self) -> Duration {
            Duration::from_nanos(read_clock().saturating_sub(self.0))
        }
        pub fn duration_since(&self, earlier: Instant) -> Duration {
            Duration::from_nanos(self.0.saturating_sub(earlier.0))
        }
        pub fn saturating_duration_since(&self, earlier: Instant) -> Duration {
            self.duration_since(earlier)
        }
        pub fn checked_duration_since(&self, earlier: Instant) -> Option<Duration> {
            self.0.checked_sub(earlier.0).map(Duration::from_nanos)
        }
        pub fn checked_add(&self, d: Duration) -> Option<Instant> {
            self.0.checked_add(d.as_nanos() as u64).map(Instant)
        }
        pub fn checked_sub(&self, d: Duration) -> Option<Instant> {
            self.0.checked_sub(d.as_nanos() as u64).map(Instant)
        }
    }
    impl std::ops::Add<Duration> for Instant {
        type Output = Instant;
        fn add(self, d: Duration) -> Instant {
            Instant(self.0 + d.as_nanos() as u64)
        }
    }
    impl std::ops::Sub<Duration> for Instant {
        type Output = Instant;
        fn sub(self, d: Duration) -> Instant {
            Instant(self.0.saturating_sub(d.as_nanos() as u64))
        }
    }
    impl std::ops::Sub<Instant> for Instant {
        type Output = Duration;
        fn sub(self, o: Instant) -> Duration {
            self.duration_since(o)
        }
    }
    impl std::ops::AddAssign<Duration> for Instant {
        fn add_assign(&mut self, d: Duration) {
            self.0 += d.as_nanos() as u64;
        }
    }

    #[derive(Clone, Copy, Debug, PartialEq, Eq, PartialOrd, Ord, Hash)]
    pub struct SystemTime(std::time::SystemTime);
    pub const UNIX_EPOCH: SystemTime = SystemTime(std::time::UNIX_EPOCH);
    pub use std::time::SystemTimeError;
    impl SystemTime {
        pub const UNIX_EPOCH: SystemTime = UNIX_EPOCH;
        pub fn now() -> SystemTime {
            // simulated epoch: 2026-01-01 plus the simulated clock
            SystemTime(std::time::UNIX_EPOCH + Duration::from_secs(1_767_225_600) + Duration::from_nanos(read_clock()))
        }
        pub fn duration_since(&self, earlier: SystemTime) -> Result<Duration, SystemTimeError> {
            self.0.duration_since(earlier.0)
        }
        pub fn elapsed(&self) -> Result<Duration, SystemTimeError> {
            SystemTime::now().0.duration_since(self.0)
        }
        pub fn checked_add(&self, d: Duration) -> Option<SystemTime> {
            self.0.checked_add(d).map(SystemTime)
        }
        pub fn checked_sub(&self, d: Duration) -> Option<SystemTime> {
            self.0.checked_sub(d).map(SystemTime)
        }
    }
    impl std::ops::Add<Duration> for SystemTime {
        type Output = SystemTime;
        fn add(self, d: Duration) -> SystemTime {
            SystemTime(self.0 + d)
        }
    }
    impl std::ops::Sub<Duration> for SystemTime {
        type Output = SystemTime;
        fn sub(self, d: Duration) -> SystemTime {
            SystemTime(self.0 - d)
        }
    }
}
