//! Seam for Engine A of the C16 check: `lazy_static!` backed by `shuttle::sync::Once`.
//!
//! `vsync` / `vthread` are the targets of the *instrumented* build (sim/shuttle_i): when the
//! library sources contain `std::sync::…`, `std::thread::…` or `thread_local!`, `./check`
//! compiles a rewritten copy in which those paths point here, so that every lock, atomic access
//! and thread-local becomes a scheduling point / per-simulated-thread object under shuttle.
//! The unmodified repository has no such site; the rewrite is then the identity.
pub use shuttle::lazy_static;
pub use shuttle::lazy_static::*;

/// Drop-in for `std::sync`: shuttle's scheduler-aware primitives, plus `OnceLock`/`LazyLock`
/// (which shuttle does not provide) built on `shuttle::sync::Once`.
pub mod vsync {
    pub use shuttle::sync::*;
    use std::cell::UnsafeCell;

    /// `std::sync::OnceLock` whose initialisation race is decided by the shuttle scheduler.
    /// The Once state is per execution, so every execution sees a first use.
    pub struct OnceLock<T> {
        once: shuttle::sync::Once,
        val: UnsafeCell<Option<T>>,
    }
    unsafe impl<T: Send + Sync> Sync for OnceLock<T> {}
    unsafe impl<T: Send> Send for OnceLock<T> {}
    impl<T> OnceLock<T> {
        pub const fn new() -> Self {
            OnceLock { once: shuttle::sync::Once::new(), val: UnsafeCell::new(None) }
        }
        pub fn get(&self) -> Option<&T> {
            if self.once.is_completed() {
                unsafe { (*self.val.get()).as_ref() }
            } else {
                None
            }
        }
        pub fn get_or_init<F: FnOnce() -> T>(&self, f: F) -> &T {
            self.once.call_once(|| unsafe { *self.val.get() = Some(f()) });
            unsafe { (*self.val.get()).as_ref().expect("OnceLock initialised") }
        }
        pub fn set(&self, value: T) -> Result<(), T> {
            let mut v = Some(value);
            self.once.call_once(|| unsafe { *self.val.get() = v.take() });
            match v {
                None => Ok(()),
                Some(v) => Err(v),
            }
        }
    }
    impl<T> Default for OnceLock<T> {
        fn default() -> Self {
            Self::new()
        }
    }
    impl<T: std::fmt::Debug> std::fmt::Debug for OnceLock<T> {
        fn fmt(&self, f: &mut std::fmt::Formatter<'_>) -> std::fmt::Result {
            f.write_str("OnceLock(..)")
        }
    }

    /// `std::sync::LazyLock` on the same footing.
    pub struct LazyLock<T, F = fn() -> T> {
        cell: OnceLock<T>,
        init: F,
    }
    unsafe impl<T: Send + Sync, F: Send + Sync> Sync for LazyLock<T, F> {}
    impl<T, F: Fn() -> T> LazyLock<T, F> {
        pub const fn new(f: F) -> Self {
            LazyLock { cell: OnceLock::new(), init: f }
        }
        pub fn force(this: &Self) -> &T {
            this.cell.get_or_init(|| (this.init)())
        }
    }
    impl<T, F: Fn() -> T> std::ops::Deref for LazyLock<T, F> {
        type Target = T;
        fn deref(&self) -> &T {
            LazyLock::force(self)
        }
    }
}

/// Drop-in for `std::thread`.
pub mod vthread {
    pub use shuttle::thread::*;
}
