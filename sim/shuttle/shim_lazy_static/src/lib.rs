//! Seam for Engine A of the C16 check: `lazy_static!` backed by `shuttle::sync::Once`.
pub use shuttle::lazy_static;
pub use shuttle::lazy_static::*;
