//! C16, Engine A: the unmodified precis-profiles sources, built through the shadow manifest with
//! `lazy_static` replaced by the shuttle seam, driven by simulated caller threads whose
//! interleaving (including first use of every lazy cell) is decided by a seeded scheduler.
//!
//! Modes
//!   worker  --seed S --from A --to B --tier T --out FILE     one chunk of runs, in this process
//!   driver  --seed S --tier T --runs N --jobs J --out FILE   spawns one fresh process per chunk
//!   replay  FILE                                             re-executes a replay file exactly
//!   minimise FILE --out FILE2                                shrinks an explicit replay file
//!   try     FILE --search K                                  (internal) does FILE still fail?
//!
//! Exit codes: 0 no violation, 1 violation (JSON in --out / stdout), 2 harness error.

#[path = "../../../common/c16_calls.rs"]
mod calls;
#[path = "../../../common/c16_scenario.rs"]
mod scenario;

mod thr {
    pub use shuttle::thread::{spawn, JoinHandle};
    /// Scheduling point between two calls of a simulated thread (not `yield_now`, which would
    /// make PCT demote the task).
    pub fn pause() {
        shuttle::thread::sleep(std::time::Duration::from_millis(0));
    }
}

use serde_json::{json, Value};
use shuttle::scheduler::{PctScheduler, RandomScheduler, RoundRobinScheduler, Schedule, Scheduler, Task, TaskId};
use simcore::c16::*;
use simcore::evidence::{read_json, write_json};
use simcore::{hash_combine, mix64, Rng};
use std::collections::{BTreeMap, BTreeSet};
use std::path::{Path, PathBuf};
use std::sync::{Arc, Mutex};

// ------------------------------------------------------------------ schedulers

/// Wraps any scheduler and records every decision (task id) of the current execution.
struct Recording {
    inner: Box<dyn Scheduler>,
    rec: Arc<Mutex<SchedRec>>,
    stop: Arc<Mutex<bool>>,
    drainable: bool,
}

#[derive(Default)]
struct SchedRec {
    steps: Vec<usize>,
    switches: u64,
    total_steps: u64,
    executions: u64,
    /// executions of the current workload so far / whether any of them had a real choice
    cur_execs: u64,
    cur_choice: bool,
}

impl Scheduler for Recording {
    fn new_execution(&mut self) -> Option<Schedule> {
        if *self.stop.lock().unwrap() {
            // let a RandomScheduler finish its iteration count quietly (it prints a
            // "failing seed" note if dropped mid-way); PCT must not be asked again
            if self.drainable {
                let inner = &mut self.inner;
                let _ = std::panic::catch_unwind(std::panic::AssertUnwindSafe(|| while inner.new_execution().is_some() {}));
            }
            return None;
        }
        let s = self.inner.new_execution()?;
        let mut r = self.rec.lock().unwrap();
        r.steps.clear();
        r.cur_execs += 1;
        r.executions += 1;
        Some(s)
    }
    fn next_task(&mut self, runnable: &[&Task], current: Option<TaskId>, is_yielding: bool) -> Option<TaskId> {
        let t = self.inner.next_task(runnable, current, is_yielding)?;
        let mut r = self.rec.lock().unwrap();
        r.steps.push(usize::from(t));
        r.total_steps += 1;
        if runnable.len() > 1 {
            r.cur_choice = true;
        }
        if current.is_some() && current != Some(t) {
            r.switches += 1;
        }
        Some(t)
    }
    fn next_u64(&mut self) -> u64 {
        self.inner.next_u64()
    }
}

/// Replays an explicit list of task ids. `strict`: any deviation is reported (replay files);
/// lenient: fall back to the lowest runnable task (used while minimising, where the workload
/// has been edited and the old schedule only serves as a hint).
struct Explicit {
    steps: Vec<usize>,
    pos: usize,
    started: bool,
    strict: bool,
    deviated: Arc<Mutex<bool>>,
}

impl Scheduler for Explicit {
    fn new_execution(&mut self) -> Option<Schedule> {
        if self.started {
            None
        } else {
            self.started = true;
            Some(Schedule::new(0))
        }
    }
    fn next_task(&mut self, runnable: &[&Task], _current: Option<TaskId>, _y: bool) -> Option<TaskId> {
        if self.pos < self.steps.len() {
            let want = TaskId::from(self.steps[self.pos]);
            self.pos += 1;
            if runnable.iter().any(|t| t.id() == want) {
                return Some(want);
            }
            if self.strict {
                *self.deviated.lock().unwrap() = true;
            }
        }
        // beyond the recorded prefix (tear-down after the root's check) or lenient deviation
        runnable.iter().map(|t| t.id()).min_by_key(|t| usize::from(*t))
    }
    fn next_u64(&mut self) -> u64 {
        0
    }
}

/// Random scheduler with stickiness: stays on the running task with probability `stay`/256,
/// otherwise picks uniformly. Long uninterrupted bursts followed by a switch are what exposes a
/// "flag set before the data is complete" initialisation; needs no warm-up execution (unlike PCT).
struct Burst {
    rng: Rng,
    stay: u64,
    started: bool,
}

impl Scheduler for Burst {
    fn new_execution(&mut self) -> Option<Schedule> {
        if self.started {
            None
        } else {
            self.started = true;
            Some(Schedule::new(0))
        }
    }
    fn next_task(&mut self, runnable: &[&Task], current: Option<TaskId>, _y: bool) -> Option<TaskId> {
        if let Some(c) = current {
            if self.rng.below(256) < self.stay && runnable.iter().any(|t| t.id() == c) {
                return Some(c);
            }
        }
        Some(runnable[self.rng.usize_below(runnable.len())].id())
    }
    fn next_u64(&mut self) -> u64 {
        self.rng.next_u64()
    }
}

#[derive(Clone, Debug)]
enum SchedKind {
    Random,
    Pct(usize),
    RoundRobin,
    Burst(u64),
}

impl SchedKind {
    fn name(&self) -> String {
        match self {
            SchedKind::Random => "random".into(),
            SchedKind::Pct(d) => format!("pct{}", d),
            SchedKind::RoundRobin => "round_robin".into(),
            SchedKind::Burst(p) => format!("burst{}", p),
        }
    }
    fn make(&self, seed: u64, iters: usize) -> Box<dyn Scheduler> {
        match self {
            SchedKind::Random => Box::new(RandomScheduler::new_from_seed(seed, iters)),
            SchedKind::Pct(d) => Box::new(PctScheduler::new_from_seed(seed, *d, iters)),
            SchedKind::RoundRobin => Box::new(RoundRobinScheduler::new(1)),
            SchedKind::Burst(p) => Box::new(Burst { rng: Rng::new(seed), stay: *p, started: false }),
        }
    }
}

fn shuttle_config() -> shuttle::Config {
    let mut c = shuttle::Config::new();
    c.stack_size = 0x80000;
    // soak runs take millions of steps; an execution that needs more than 5*10^7 (a spin-wait the
    // scheduler keeps preferring, a livelock) is abandoned and the next one started
    c.max_steps = shuttle::MaxSteps::ContinueAfter(50_000_000);
    c.failure_persistence = shuttle::FailurePersistence::None;
    c.silence_warnings = true;
    c
}

// ------------------------------------------------------------------ per-process state

#[derive(Default)]
struct Stats {
    runs: u64,
    executions: u64,
    calls: u64,
    panicked_calls: u64,
    overlapping_pairs: u64,
    first_use_overlaps: [u64; 4],
    late_spawns: u64,
    early_exits: u64,
    multi_thread_execs: u64,
    by_sched: BTreeMap<String, u64>,
    by_threads: BTreeMap<usize, u64>,
    /// coordinate coverage: profile × kind × api form × argument form
    coords: BTreeSet<(u8, u8, u8, u8)>,
    outcome_kinds: BTreeMap<String, u64>,
    /// (workload hash ⊕ interleaving hash) of non-trivial executions
    distinct_nontrivial: BTreeSet<u64>,
    distinct_all: BTreeSet<u64>,
    samples: Vec<Value>,
}

struct Sink {
    wl_store: Vec<Arc<Workload>>,
    oracle: Oracle,
    stats: Stats,
    violation: Option<Value>,
    /// context for the execution in progress
    cur_origin: String,
    cur_whash: u64,
    cur_workload: Option<Arc<Workload>>,
    rec: Arc<Mutex<SchedRec>>,
    stop: Arc<Mutex<bool>>,
    want_sample: bool,
}

impl Sink {
    fn on_execution(&mut self, events: &[Event]) {
        let w = self.cur_workload.clone().unwrap();
        let st = &mut self.stats;
        st.executions += 1;
        st.calls += events.len() as u64;
        let hs = analyse(events);
        st.overlapping_pairs += hs.overlapping_pairs;
        for p in 0..4 {
            st.first_use_overlaps[p] += hs.first_use_overlaps[p];
        }
        let ih = interleaving_hash(events);
        let key = hash_combine(self.cur_whash, ih);
        st.distinct_all.insert(key);
        if hs.nontrivial {
            st.distinct_nontrivial.insert(key);
        }
        if w.threads.len() > 1 {
            st.multi_thread_execs += 1;
            // early exit: some thread's last return precedes another thread's first invoke
            let mut last_ret: BTreeMap<usize, u64> = BTreeMap::new();
            let mut first_inv: BTreeMap<usize, u64> = BTreeMap::new();
            for e in events {
                let l = last_ret.entry(e.thread).or_insert(0);
                *l = (*l).max(e.return_seq);
                let f = first_inv.entry(e.thread).or_insert(u64::MAX);
                *f = (*f).min(e.invoke_seq);
            }
            if last_ret.iter().any(|(t, l)| first_inv.iter().any(|(u, f)| u != t && f > l)) {
                st.early_exits += 1;
            }
            st.late_spawns += w.threads.iter().skip(1).filter(|t| t.after > 0).count() as u64;
        }
        for e in events {
            st.coords.insert((e.call.profile, e.call.kind, e.call.api, if e.call.kind == 2 { e.call.fa * 4 + e.call.fb } else { e.call.fa }));
            let k = match &e.outcome {
                Outcome::OkStr(_) => "ok_str",
                Outcome::OkBool(_) => "ok_bool",
                Outcome::Err(_) => "err",
                Outcome::Panicked => {
                    st.panicked_calls += 1;
                    "panicked"
                }
            };
            *st.outcome_kinds.entry(k.to_string()).or_insert(0) += 1;
        }
        if self.want_sample && hs.nontrivial && st.samples.len() < 3 {
            self.want_sample = false;
            st.samples.push(json!({
                "origin": self.cur_origin,
                "threads": w.threads.len(),
                "history": events.iter().map(|e| json!({
                    "thread": e.thread, "invoke_seq": e.invoke_seq, "return_seq": e.return_seq,
                    "call": e.call.describe(&w), "outcome": e.outcome.to_json(),
                })).collect::<Vec<_>>(),
                "schedule_task_ids": self.rec.lock().unwrap().steps.clone(),
            }));
        }
        // the invariant: stateless-object consistency
        if self.violation.is_none() {
            for e in events {
                let ac = AbstractCall::of(&w, &e.call);
                let origin = self.cur_origin.clone();
                let n = w.threads.len();
                let small = w.ncalls() <= 64;
                // explicit replay needs the workload of both observations; it is kept once per
                // workload in a side table and referenced by index (soak workloads, 10^4..10^6
                // calls, are replayed from their seed instead)
                let wl_idx = if small {
                    if self.wl_store.last().map(|x| !Arc::ptr_eq(x, &w)).unwrap_or(true) {
                        self.wl_store.push(w.clone());
                    }
                    Some(self.wl_store.len() - 1)
                } else {
                    None
                };
                if let Err(mut m) = self.oracle.observe(ac, &e.outcome, || {
                    let mut c = coord_json(&origin, e, n);
                    if let Some(i) = wl_idx {
                        c["workload_idx"] = json!(i);
                    }
                    c
                }) {
                    for c in [&mut m.first.coord, &mut m.second_coord] {
                        if let Some(i) = c.get("workload_idx").and_then(|x| x.as_u64()) {
                            c["workload"] = self.wl_store[i as usize].to_json();
                            c.as_object_mut().unwrap().remove("workload_idx");
                        }
                    }
                    let mut second = m.second_coord.clone();
                    second["schedule_task_ids"] = json!(self.rec.lock().unwrap().steps.clone());
                    let mut mj = m.to_json();
                    mj["second"]["coordinates"] = second;
                    self.violation = Some(mj);
                    *self.stop.lock().unwrap() = true;
                    break;
                }
            }
        }
    }
}

fn quiet_panics() {
    // Library panics are caught inside the simulated thread and are ordinary outcomes; keep
    // stderr clean. Installed after shuttle's own hook (which is set once, at the first run).
    std::panic::set_hook(Box::new(|info| {
        let from_library = info.location().map(|l| {
            let f = l.file();
            f.contains("precis-core/") || f.contains("precis-profiles/") || f.contains("unicode-normalization") || f.contains("tinyvec")
        }).unwrap_or(false);
        if !from_library {
            eprintln!("{}", info);
            if std::env::var_os("VERIF_BACKTRACE").is_some() {
                eprintln!("{}", std::backtrace::Backtrace::force_capture());
            }
        }
    }));
}

/// Runs `iters` schedules of `w` under `sched`; returns Err(description) on deadlock/harness panic.
fn run_workload(sink: &Arc<Mutex<Sink>>, w: Arc<Workload>, origin: &str, sched: Box<dyn Scheduler>) -> Result<(), String> {
    run_workload_x(sink, w, origin, sched, false)
}

/// `probe_first`: run one round-robin execution first; if it never had two runnable tasks the
/// workload is sequential (every schedule is that one) and `sched` is not used at all — PCT
/// refuses such workloads, and repeating the identical execution explores nothing.
fn run_workload_x(sink: &Arc<Mutex<Sink>>, w: Arc<Workload>, origin: &str, sched: Box<dyn Scheduler>, probe_first: bool) -> Result<(), String> {
    if probe_first {
        run_workload_x(sink, w.clone(), origin, Box::new(RoundRobinScheduler::new(1)), false)?;
        let s = sink.lock().unwrap();
        let had_choice = s.rec.lock().unwrap().cur_choice;
        if !had_choice || s.violation.is_some() {
            return Ok(());
        }
    }
    let (rec, stop) = {
        let mut s = sink.lock().unwrap();
        s.cur_origin = origin.to_string();
        s.cur_whash = w.hash();
        s.cur_workload = Some(w.clone());
        s.want_sample = true;
        {
            let mut r = s.rec.lock().unwrap();
            r.cur_execs = 0;
            r.cur_choice = false;
        }
        (s.rec.clone(), s.stop.clone())
    };
    let recording = Recording { inner: sched, rec, stop, drainable: true };
    let runner = shuttle::Runner::new(recording, shuttle_config());
    let sink2 = sink.clone();
    let res = std::panic::catch_unwind(std::panic::AssertUnwindSafe(move || {
        runner.run(move || {
            // simulated clock of the instrumented build: fresh jump sequence per execution
            verif_shim::vtime::reseed(w.hash() ^ verif_shim_exec_counter());
            verif_shim::vtls::new_execution();
            let events = scenario::run_execution(w.clone());
            sink2.lock().unwrap().on_execution(&events);
        })
    }));
    quiet_panics();
    if verif_shim::blocked_while_panicking() {
        // whatever this run observed is an artefact of the simulator, not of the library
        sink.lock().unwrap().violation = None;
        return Err("unsupported by the simulator: a simulated thread blocked while its (caught) panic was unwinding; \
                    the panic flag of the one OS thread then leaks into the other simulated threads".to_string());
    }
    match res {
        Ok(_) => Ok(()),
        Err(p) => {
            let msg = p.downcast_ref::<String>().cloned().or_else(|| p.downcast_ref::<&str>().map(|s| s.to_string())).unwrap_or_default();
            Err(msg)
        }
    }
}

fn verif_shim_exec_counter() -> u64 {
    static N: std::sync::atomic::AtomicU64 = std::sync::atomic::AtomicU64::new(0);
    N.fetch_add(1, std::sync::atomic::Ordering::Relaxed).wrapping_mul(0x9e3779b97f4a7c15)
}

fn new_sink() -> Arc<Mutex<Sink>> {
    Arc::new(Mutex::new(Sink {
        wl_store: vec![],
        oracle: Oracle::default(),
        stats: Stats::default(),
        violation: None,
        cur_origin: String::new(),
        cur_whash: 0,
        cur_workload: None,
        rec: Arc::new(Mutex::new(SchedRec::default())),
        stop: Arc::new(Mutex::new(false)),
        want_sample: false,
    }))
}

fn init_shuttle_hook() {
    // one trivial run so that shuttle installs its panic hook now; ours then replaces it
    shuttle::Runner::new(RoundRobinScheduler::new(1), shuttle_config()).run(|| {});
    quiet_panics();
}

// ------------------------------------------------------------------ run derivation

struct RunPlan {
    w: Workload,
    sched: SchedKind,
    sched_seed: u64,
    iters: usize,
}

fn tier_cfg(tier: &str) -> GenCfg {
    if tier == "thorough" {
        GenCfg { max_threads: 6, max_calls: 12, long_inputs: true }
    } else {
        GenCfg { max_threads: 4, max_calls: 6, long_inputs: true }
    }
}

/// All calls of the workload on one simulated thread, in thread order (used when the plain build
/// meets a library with per-thread state, which the simulated threads of one OS thread would share).
fn sequential(mut w: Workload) -> Workload {
    let calls: Vec<_> = w.threads.iter().flat_map(|t| t.calls.iter().cloned()).collect();
    w.threads.truncate(1);
    if let Some(t) = w.threads.first_mut() {
        t.calls = calls;
        t.parent = 0;
        t.after = 0;
    }
    w
}

fn plan_run(seed: u64, idx: u64, tier: &str) -> RunPlan {
    let mut rng = Rng::derive(seed, idx, 16);
    let cfg = tier_cfg(tier);
    let w = if rng.chance(1, 16) {
        gen_crash_workload(&mut rng)
    } else if rng.chance(1, 4) {
        let nthreads = 2 + rng.usize_below(cfg.max_threads - 1);
        let phases = 1 + rng.usize_below(cfg.max_calls);
        gen_phased_workload(&mut rng, nthreads, phases)
    } else {
        gen_workload(&mut rng, &cfg)
    };
    let w = if std::env::var_os("VERIF_C16_SEQUENTIAL").is_some() { sequential(w) } else { w };
    let sched = match rng.below(10) {
        0..=4 => SchedKind::Random,
        5..=8 => SchedKind::Pct(1 + rng.usize_below(5)),
        _ => SchedKind::RoundRobin,
    };
    let iters = if w.threads.len() == 1 { 1 } else { [8, 16, 32, 64][rng.usize_below(4)] };
    let iters = if let SchedKind::RoundRobin = sched { 1 } else { iters };
    RunPlan { w, sched, sched_seed: rng.next_u64(), iters }
}

// ------------------------------------------------------------------ worker

fn worker(seed: u64, from: u64, to: u64, tier: &str) -> (Value, i32) {
    init_shuttle_hook();
    let sink = new_sink();
    let mut harness_err: Option<String> = None;
    let mut failing_run: Option<u64> = None;
    for idx in from..to {
        let plan = plan_run(seed, idx, tier);
        let origin = format!("seed={} run={} sched={} schedules={}", seed, idx, plan.sched.name(), plan.iters);
        {
            let mut s = sink.lock().unwrap();
            s.stats.runs += 1;
            *s.stats.by_sched.entry(plan.sched.name()).or_insert(0) += 1;
            *s.stats.by_threads.entry(plan.w.threads.len()).or_insert(0) += 1;
        }
        let r = run_workload_x(&sink, Arc::new(plan.w.clone()), &origin, plan.sched.make(plan.sched_seed, plan.iters), true);
        if let Err(msg) = r {
            let sched_ids = sink.lock().unwrap().rec.lock().unwrap().steps.clone();
            if msg.contains("deadlock") {
                let mut s = sink.lock().unwrap();
                s.violation = Some(json!({
                    "kind": "deadlock", "message": msg,
                    "second": {"coordinates": {"origin": origin, "workload": plan.w.to_json(), "schedule_task_ids": sched_ids}},
                }));
            } else {
                harness_err = Some(format!("run {}: {}", idx, msg));
            }
            failing_run = Some(idx);
            break;
        }
        if sink.lock().unwrap().violation.is_some() {
            failing_run = Some(idx);
            break;
        }
    }
    let s = sink.lock().unwrap();
    let rec = s.rec.lock().unwrap();
    let st = &s.stats;
    let out = json!({
        "seed": seed, "from": from, "to": to, "tier": tier,
        "runs": st.runs, "executions": rec.executions.saturating_sub(0), "checked_executions": st.executions,
        "sched_steps": rec.total_steps, "context_switches": rec.switches,
        "calls": st.calls, "panicked_calls": st.panicked_calls,
        "overlapping_pairs": st.overlapping_pairs, "first_use_overlaps": st.first_use_overlaps,
        "late_spawns": st.late_spawns, "early_exits": st.early_exits, "multi_thread_execs": st.multi_thread_execs,
        "by_sched": st.by_sched, "by_threads": st.by_threads.iter().map(|(k, v)| (k.to_string(), *v)).collect::<BTreeMap<_, _>>(),
        "coords": st.coords.iter().map(|c| json!([c.0, c.1, c.2, c.3])).collect::<Vec<_>>(),
        "outcome_kinds": st.outcome_kinds,
        "distinct_nontrivial": st.distinct_nontrivial.iter().map(|h| format!("{:016x}", h)).collect::<Vec<_>>(),
        "distinct_all_count": st.distinct_all.len(),
        "abstract_calls": s.oracle.m.len(),
        "abstract_calls_seen_2plus": s.oracle.m.values().filter(|x| x.count >= 2).count(),
        "abstract_calls_seen_10plus": s.oracle.m.values().filter(|x| x.count >= 10).count(),
        "samples": st.samples,
        "sim_clock_reads": verif_shim::vtime::stats().0, "sim_clock_jumps_ge_1s": verif_shim::vtime::stats().1,
        "violation": s.violation,
        "failing_run": failing_run,
        "harness_error": harness_err,
        // observed outcomes, for the cold-start cross-check (bounded sample, deterministic order)
        "observed": s.oracle.m.iter().filter(|(k, _)| mix64(simcore::hash_bytes(k.key().as_bytes()) ^ seed) % 8 == 0).take(64)
            .map(|(k, v)| json!({"profile": k.profile, "kind": k.kind, "a_hex": simcore::hex(k.a.as_bytes()), "b_hex": simcore::hex(k.b.as_bytes()), "outcome": v.outcome.to_line(), "coord": v.coord["origin"]}))
            .collect::<Vec<_>>(),
    });
    let code = if harness_err.is_some() { 2 } else if s.violation.is_some() { 1 } else { 0 };
    (out, code)
}

/// One workload, one schedule, this fresh process; then, still in this process, every distinct
/// abstract call once more on a single thread (static and fresh-instance form): whatever the
/// racing first use left behind in plain statics must not change any answer.
fn cold(seed: u64, index: u64, tier: &str) -> (Value, i32) {
    init_shuttle_hook();
    let sink = new_sink();
    let harness_err = cold_into(&sink, seed, index, tier);
    cold_report(&sink, seed, index, tier, harness_err)
}

fn cold_into(sink: &Arc<Mutex<Sink>>, seed: u64, index: u64, tier: &str) -> Option<String> {
    let mut rng = Rng::derive(seed, index, 1616);
    let cfg = tier_cfg(tier);
    let w = if rng.chance(3, 4) {
        let nthreads = 2 + rng.usize_below(cfg.max_threads - 1);
        let phases = 1 + rng.usize_below(4);
        gen_phased_workload(&mut rng, nthreads, phases)
    } else {
        let mut w = gen_workload(&mut rng, &cfg);
        for t in &mut w.threads {
            t.after = 0;
            t.parent = 0;
        }
        w
    };
    let w = if std::env::var_os("VERIF_C16_SEQUENTIAL").is_some() { sequential(w) } else { w };
    let sched = if rng.chance(1, 2) { SchedKind::Random } else { SchedKind::Burst(*rng.pick(&[128u64, 192, 224, 240, 250])) };
    let sched_seed = rng.next_u64();
    let origin = format!("seed={} cold={} sched={}", seed, index, sched.name());
    {
        let mut s = sink.lock().unwrap();
        s.stats.runs += 1;
        *s.stats.by_sched.entry(format!("cold_{}", sched.name())).or_insert(0) += 1;
        *s.stats.by_threads.entry(w.threads.len()).or_insert(0) += 1;
    }
    let mut harness_err = None;
    let r = run_workload(sink, Arc::new(w.clone()), &origin, sched.make(sched_seed, 1));
    if let Err(m) = r {
        if m.contains("deadlock") {
            sink.lock().unwrap().violation = Some(json!({"kind": "deadlock", "message": m, "second": {"coordinates": {"origin": origin, "workload": w.to_json()}}}));
        } else if !m.contains("did not exercise any concurrency") {
            harness_err = Some(m);
        }
    }
    if sink.lock().unwrap().violation.is_none() && harness_err.is_none() {
        let mut calls = vec![];
        let mut seen = BTreeSet::new();
        for t in &w.threads {
            for c in &t.calls {
                if seen.insert(AbstractCall::of(&w, c)) {
                    for api in [1u8, 0u8] {
                        calls.push(Call { api, fa: 0, fb: 0, ..c.clone() });
                    }
                }
            }
        }
        let refw = Workload { pool: w.pool.clone(), threads: vec![ThreadPlan { parent: 0, after: 0, calls }] };
        if let Err(m) = run_workload(sink, Arc::new(refw), &format!("{} sequential re-evaluation in the same process", origin), Box::new(RoundRobinScheduler::new(1))) {
            harness_err = Some(m);
        }
    }
    harness_err
}

/// Long histories: probe set, k calls of ordinary traffic, probe set again — one fresh process.
fn soak_params(seed: u64, index: u64, tier: &str) -> (usize, usize, bool, Rng) {
    let mut rng = Rng::derive(seed, index, 1717);
    let ks: &[usize] = if tier == "thorough" { &[2_000, 20_000, 70_000, 300_000, 1_100_000] } else { &[1_000, 5_000, 20_000, 70_000] };
    let k = ks[(index as usize) % ks.len()];
    let traffic = ((index as usize) / ks.len()) % SOAK_TRAFFIC.len();
    let two = rng.chance(1, 3);
    (k, traffic, two, rng)
}

fn soak_into(sink: &Arc<Mutex<Sink>>, seed: u64, index: u64, tier: &str) -> Option<String> {
    let (k, traffic, two, mut rng) = soak_params(seed, index, tier);
    let w = gen_soak_workload(&mut rng, k, traffic, two);
    let w = if std::env::var_os("VERIF_C16_SEQUENTIAL").is_some() { sequential(w) } else { w };
    let origin = format!("seed={} soak={} k={} traffic={} threads={}", seed, index, k, SOAK_TRAFFIC[traffic], if two { 2 } else { 1 });
    {
        let mut s = sink.lock().unwrap();
        *s.stats.by_sched.entry(format!("soak_{}", SOAK_TRAFFIC[traffic])).or_insert(0) += 1;
        *s.stats.by_threads.entry(w.threads.len()).or_insert(0) += 1;
    }
    match run_workload(sink, Arc::new(w), &origin, SchedKind::Random.make(rng.next_u64(), 1)) {
        Ok(()) => None,
        Err(m) if m.contains("deadlock") => {
            sink.lock().unwrap().violation = Some(json!({"kind": "deadlock", "message": m, "second": {"coordinates": {"origin": origin}}}));
            None
        }
        Err(m) => Some(m),
    }
}

fn soak(seed: u64, index: u64, tier: &str) -> (Value, i32) {
    init_shuttle_hook();
    let sink = new_sink();
    let harness_err = soak_into(&sink, seed, index, tier);
    let (mut v, code) = cold_report(&sink, seed, index, tier, harness_err);
    let calls = v["calls"].clone();
    v["cold_executions"] = json!(0);
    v["soak_executions"] = json!(1);
    v["soak_calls"] = calls;
    v["soak_index"] = json!(index);
    v.as_object_mut().unwrap().remove("cold_index");
    (v, code)
}

fn cold_report(sink: &Arc<Mutex<Sink>>, seed: u64, index: u64, tier: &str, harness_err: Option<String>) -> (Value, i32) {
    let s = sink.lock().unwrap();
    let rec = s.rec.lock().unwrap();
    let st = &s.stats;
    let out = json!({
        "seed": seed, "cold_index": index, "tier": tier, "cold_executions": 1,
        "runs": 0, "executions": rec.executions, "checked_executions": st.executions,
        "sched_steps": rec.total_steps, "context_switches": rec.switches,
        "calls": st.calls, "panicked_calls": st.panicked_calls,
        "overlapping_pairs": st.overlapping_pairs, "first_use_overlaps": st.first_use_overlaps,
        "late_spawns": st.late_spawns, "early_exits": st.early_exits, "multi_thread_execs": st.multi_thread_execs,
        "by_sched": st.by_sched, "by_threads": st.by_threads.iter().map(|(k, v)| (k.to_string(), *v)).collect::<BTreeMap<_, _>>(),
        "coords": st.coords.iter().map(|c| json!([c.0, c.1, c.2, c.3])).collect::<Vec<_>>(),
        "outcome_kinds": st.outcome_kinds,
        "distinct_nontrivial": st.distinct_nontrivial.iter().map(|h| format!("{:016x}", h)).collect::<Vec<_>>(),
        "distinct_all_count": st.distinct_all.len(),
        "abstract_calls": s.oracle.m.len(),
        "abstract_calls_seen_2plus": s.oracle.m.values().filter(|x| x.count >= 2).count(),
        "abstract_calls_seen_10plus": s.oracle.m.values().filter(|x| x.count >= 10).count(),
        "samples": [],
        "sim_clock_reads": verif_shim::vtime::stats().0, "sim_clock_jumps_ge_1s": verif_shim::vtime::stats().1,
        "violation": s.violation,
        "failing_run": null,
        "harness_error": harness_err,
        "observed": s.oracle.m.iter().filter(|(k, _)| mix64(simcore::hash_bytes(k.key().as_bytes()) ^ seed) % 16 == 0).take(2)
            .map(|(k, v)| json!({"profile": k.profile, "kind": k.kind, "a_hex": simcore::hex(k.a.as_bytes()), "b_hex": simcore::hex(k.b.as_bytes()), "outcome": v.outcome.to_line(), "coord": v.coord["origin"]}))
            .collect::<Vec<_>>(),
    });
    let code = if harness_err.is_some() { 2 } else if s.violation.is_some() { 1 } else { 0 };
    (out, code)
}

// ------------------------------------------------------------------ replay files

/// history item: explicit {workload, schedule_task_ids} or seeded {seed, from, to, tier}
fn run_history(items: &[Value], strict: bool, search: usize) -> Result<Option<Value>, String> {
    init_shuttle_hook();
    let sink = new_sink();
    for (n, it) in items.iter().enumerate() {
        if let Some(wj) = it.get("workload") {
            let w = Arc::new(Workload::from_json(wj).ok_or("bad workload in replay file")?);
            let steps: Vec<usize> = it.get("schedule_task_ids").and_then(|x| x.as_array()).map(|a| a.iter().filter_map(|x| x.as_u64().map(|y| y as usize)).collect()).unwrap_or_default();
            let deviated = Arc::new(Mutex::new(false));
            let sched = Explicit { steps, pos: 0, started: false, strict, deviated: deviated.clone() };
            let origin = format!("replay item {}", n);
            let r = run_workload(&sink, w.clone(), &origin, Box::new(sched));
            if let Err(m) = r {
                if m.contains("deadlock") {
                    return Ok(Some(json!({"kind": "deadlock", "message": m})));
                }
                return Err(m);
            }
            if strict && *deviated.lock().unwrap() {
                return Err(format!("replay item {}: recorded schedule is not runnable on this tree", n));
            }
            if sink.lock().unwrap().violation.is_some() {
                break;
            }
            // optional additional search around an edited workload (minimiser only)
            for k in 0..search {
                let s = mix64(w.hash() ^ (k as u64).wrapping_mul(0x9e3779b97f4a7c15));
                let sched: Box<dyn Scheduler> = if k % 2 == 0 { Box::new(RandomScheduler::new_from_seed(s, 1)) } else { Box::new(PctScheduler::new_from_seed(s, 1 + k % 4, 1)) };
                run_workload(&sink, w.clone(), &format!("replay item {} search {}", n, k), sched)?;
                if sink.lock().unwrap().violation.is_some() {
                    break;
                }
            }
        } else if let Some(si) = it.get("soak_index").and_then(|x| x.as_u64()) {
            let seed = it.get("seed").and_then(|x| x.as_u64()).ok_or("bad soak item")?;
            let tier = it.get("tier").and_then(|x| x.as_str()).unwrap_or("quick").to_string();
            if let Some(m) = soak_into(&sink, seed, si, &tier) {
                return Err(m);
            }
        } else if let Some(ci) = it.get("cold_index").and_then(|x| x.as_u64()) {
            let seed = it.get("seed").and_then(|x| x.as_u64()).ok_or("bad cold item")?;
            let tier = it.get("tier").and_then(|x| x.as_str()).unwrap_or("quick").to_string();
            if let Some(m) = cold_into(&sink, seed, ci, &tier) {
                return Err(m);
            }
        } else {
            let seed = it.get("seed").and_then(|x| x.as_u64()).ok_or("bad seeded item")?;
            let from = it.get("from").and_then(|x| x.as_u64()).ok_or("bad seeded item")?;
            let to = it.get("to").and_then(|x| x.as_u64()).ok_or("bad seeded item")?;
            let tier = it.get("tier").and_then(|x| x.as_str()).unwrap_or("quick").to_string();
            for idx in from..to {
                let plan = plan_run(seed, idx, &tier);
                let origin = format!("seed={} run={} sched={} schedules={}", seed, idx, plan.sched.name(), plan.iters);
                let r = run_workload_x(&sink, Arc::new(plan.w.clone()), &origin, plan.sched.make(plan.sched_seed, plan.iters), true);
                if let Err(m) = r {
                    if m.contains("deadlock") {
                        return Ok(Some(json!({"kind": "deadlock", "message": m})));
                    }
                    return Err(m);
                }
                if sink.lock().unwrap().violation.is_some() {
                    break;
                }
            }
        }
        if sink.lock().unwrap().violation.is_some() {
            break;
        }
    }
    let v = sink.lock().unwrap().violation.clone();
    Ok(v)
}

fn same_violation(a: &Value, b: &Value) -> bool {
    a.get("kind") == b.get("kind")
        && a.get("abstract_call").map(|x| (x.get("profile").cloned(), x.get("kind").cloned()))
            == b.get("abstract_call").map(|x| (x.get("profile").cloned(), x.get("kind").cloned()))
}

fn cmd_replay(path: &Path) -> i32 {
    let v = match read_json(path) {
        Ok(v) => v,
        Err(e) => {
            eprintln!("HARNESS: {}", e);
            return 2;
        }
    };
    let items = v.get("history").and_then(|x| x.as_array()).cloned().unwrap_or_default();
    match run_history(&items, true, 0) {
        Err(e) => {
            eprintln!("HARNESS: replay failed to run: {}", e);
            2
        }
        Ok(None) => {
            println!("replay: no violation reproduced from {}", path.display());
            0
        }
        Ok(Some(viol)) => {
            println!("replay: reproduced: {}", serde_json::to_string(&strip(&viol)).unwrap());
            println!("VIOLATION property=C16 replay={}", path.display());
            1
        }
    }
}

fn strip(v: &Value) -> Value {
    // short form for the console: drop embedded workloads
    let mut v = v.clone();
    for side in ["first", "second"] {
        if let Some(c) = v.get_mut(side).and_then(|s| s.get_mut("coordinates")).and_then(|c| c.as_object_mut()) {
            c.remove("workload");
            c.remove("schedule_task_ids");
        }
    }
    v
}

/// (internal) exit 1 and print the violation JSON if the history in FILE fails
fn cmd_try(path: &Path, search: usize) -> i32 {
    let v = match read_json(path) {
        Ok(v) => v,
        Err(_) => return 2,
    };
    let items = v.get("history").and_then(|x| x.as_array()).cloned().unwrap_or_default();
    match run_history(&items, false, search) {
        Err(_) => 2,
        Ok(None) => 0,
        Ok(Some(viol)) => {
            println!("{}", serde_json::to_string(&viol).unwrap());
            1
        }
    }
}

fn try_in_fresh_process(items: &[Value], search: usize, scratch: &Path) -> Option<Value> {
    let f = scratch.join(format!("try-{}.json", std::process::id()));
    write_json(&f, &json!({"history": items})).ok()?;
    let out = std::process::Command::new(std::env::current_exe().ok()?)
        .arg("try").arg(&f).arg("--search").arg(search.to_string())
        .env_remove("SHUTTLE_RANDOM_SEED")
        .output().ok()?;
    let _ = std::fs::remove_file(&f);
    if out.status.code() == Some(1) {
        serde_json::from_slice(out.stdout.split(|b| *b == b'\n').next()?).ok()
    } else {
        None
    }
}

/// After a failing `try`, the explicit items get the schedule that actually failed.
fn refresh_schedule(items: &mut [Value], viol: &Value) {
    // the violation's second coordinates carry the failing schedule and its origin item index
    if let (Some(orig), Some(ids)) = (
        viol.pointer("/second/coordinates/origin").and_then(|x| x.as_str()),
        viol.pointer("/second/coordinates/schedule_task_ids"),
    ) {
        if let Some(rest) = orig.strip_prefix("replay item ") {
            if let Some(n) = rest.split(' ').next().and_then(|x| x.parse::<usize>().ok()) {
                if n < items.len() && items[n].get("workload").is_some() {
                    items[n]["schedule_task_ids"] = ids.clone();
                }
            }
        }
    }
}

fn shrink_candidates(w: &Workload) -> Vec<Workload> {
    let mut out = vec![];
    // drop a whole thread (never the root); re-parent its children to its parent
    for t in (1..w.threads.len()).rev() {
        let mut n = w.clone();
        let gone = n.threads.remove(t);
        for (i, th) in n.threads.iter_mut().enumerate() {
            if i == 0 {
                continue;
            }
            if th.parent == t {
                th.parent = gone.parent;
            } else if th.parent > t {
                th.parent -= 1;
            }
            if th.parent >= i {
                th.parent = 0;
            }
        }
        out.push(n);
    }
    // drop a call
    for t in 0..w.threads.len() {
        for c in (0..w.threads[t].calls.len()).rev() {
            let mut n = w.clone();
            n.threads[t].calls.remove(c);
            out.push(n);
        }
    }
    // spawn at once
    for t in 1..w.threads.len() {
        if w.threads[t].after > 0 || w.threads[t].parent != 0 {
            let mut n = w.clone();
            n.threads[t].after = 0;
            n.threads[t].parent = 0;
            out.push(n);
        }
    }
    // simpler coordinates: static -> kept (it is usually the point); others -> fresh_new; Cow/String -> &str
    for t in 0..w.threads.len() {
        for c in 0..w.threads[t].calls.len() {
            let call = &w.threads[t].calls[c];
            if call.api > 1 {
                let mut n = w.clone();
                n.threads[t].calls[c].api = 1;
                out.push(n);
            }
            if call.fa != 0 || call.fb != 0 {
                let mut n = w.clone();
                n.threads[t].calls[c].fa = 0;
                n.threads[t].calls[c].fb = 0;
                out.push(n);
            }
        }
    }
    // shorter strings: drop the k-th character of every pool entry at once (keeps same-length /
    // same-prefix collisions between entries intact)
    let maxlen = w.pool.iter().map(|p| p.chars().count()).max().unwrap_or(0);
    if maxlen > 1 && maxlen <= 40 {
        for k in (0..maxlen).rev() {
            let mut n = w.clone();
            for p in &mut n.pool {
                if p.chars().count() > 1 {
                    *p = p.chars().enumerate().filter(|(i, _)| *i != k).map(|(_, c)| c).collect();
                }
            }
            if n.pool != w.pool {
                out.push(n);
            }
        }
    }
    // shorter strings: drop one character of a pool entry
    for p in 0..w.pool.len() {
        let chars: Vec<char> = w.pool[p].chars().collect();
        if chars.len() > 1 && chars.len() <= 24 {
            for k in 0..chars.len() {
                let mut n = w.clone();
                n.pool[p] = chars.iter().enumerate().filter(|(i, _)| *i != k).map(|(_, c)| *c).collect();
                out.push(n);
            }
        }
    }
    out
}

/// Garbage-collect pool entries no call refers to.
fn compact_pool(w: &Workload) -> Workload {
    let mut used = BTreeSet::new();
    for t in &w.threads {
        for c in &t.calls {
            used.insert(c.a);
            if c.kind == 2 {
                used.insert(c.b);
            }
        }
    }
    let map: BTreeMap<usize, usize> = used.iter().enumerate().map(|(n, o)| (*o, n)).collect();
    let mut n = w.clone();
    n.pool = used.iter().map(|i| w.pool[*i].clone()).collect();
    if n.pool.is_empty() {
        n.pool.push(String::new());
    }
    for t in &mut n.threads {
        for c in &mut t.calls {
            c.a = *map.get(&c.a).unwrap_or(&0);
            c.b = if c.kind == 2 { *map.get(&c.b).unwrap_or(&0) } else { 0 };
        }
    }
    n
}

fn cmd_minimise(path: &Path, out: &Path) -> i32 {
    let v = match read_json(path) {
        Ok(v) => v,
        Err(e) => {
            eprintln!("HARNESS: {}", e);
            return 2;
        }
    };
    let scratch = out.parent().unwrap_or(Path::new(".")).to_path_buf();
    let mut items: Vec<Value> = v.get("history").and_then(|x| x.as_array()).cloned().unwrap_or_default();
    if items.iter().any(|i| i.get("workload").is_none()) {
        eprintln!("minimise: history contains seeded items; nothing to shrink");
        return 0;
    }
    let target = match try_in_fresh_process(&items, 0, &scratch) {
        Some(t) => t,
        None => {
            eprintln!("minimise: input does not fail in a fresh process");
            return 2;
        }
    };
    let mut current_viol = target.clone();
    let mut budget = 600usize;
    let mut progress = true;
    while progress && budget > 0 {
        progress = false;
        // drop a whole history item
        for n in (0..items.len()).rev() {
            if items.len() == 1 {
                break;
            }
            let mut cand = items.clone();
            cand.remove(n);
            budget = budget.saturating_sub(1);
            if let Some(vv) = try_in_fresh_process(&cand, 16, &scratch) {
                if same_violation(&vv, &target) {
                    items = cand;
                    refresh_schedule(&mut items, &vv);
                    current_viol = vv;
                    progress = true;
                    break;
                }
            }
        }
        if progress {
            continue;
        }
        'outer: for n in 0..items.len() {
            let w = match Workload::from_json(&items[n]["workload"]) {
                Some(w) => w,
                None => continue,
            };
            for cw in shrink_candidates(&w) {
                if budget == 0 {
                    break 'outer;
                }
                budget -= 1;
                let mut cand = items.clone();
                cand[n]["workload"] = compact_pool(&cw).to_json();
                if let Some(vv) = try_in_fresh_process(&cand, 24, &scratch) {
                    if same_violation(&vv, &target) {
                        items = cand;
                        refresh_schedule(&mut items, &vv);
                        current_viol = vv;
                        progress = true;
                        break 'outer;
                    }
                }
            }
        }
    }
    let mut o = v.clone();
    o["history"] = json!(items);
    o["minimised"] = json!(true);
    o["violation"] = strip(&current_viol);
    o["minimised_from"] = json!(path.display().to_string());
    if write_json(out, &o).is_err() {
        return 2;
    }
    // final gate: strict replay in a fresh process must fail the same way
    let st = std::process::Command::new(std::env::current_exe().unwrap()).arg("replay").arg(out).env_remove("SHUTTLE_RANDOM_SEED").output();
    match st {
        Ok(o2) if o2.status.code() == Some(1) => 0,
        _ => {
            eprintln!("minimise: minimised file does not replay strictly; keeping the original");
            let _ = std::fs::remove_file(out);
            3
        }
    }
}

// ------------------------------------------------------------------ driver

fn arg_val(args: &[String], name: &str) -> Option<String> {
    args.iter().position(|a| a == name).and_then(|i| args.get(i + 1)).cloned()
}

fn cmd_driver(args: &[String]) -> i32 {
    let seed: u64 = arg_val(args, "--seed").and_then(|x| x.parse().ok()).unwrap_or_else(simcore::verif_seed);
    let tier = arg_val(args, "--tier").unwrap_or_else(|| "quick".into());
    let runs: u64 = arg_val(args, "--runs").and_then(|x| x.parse().ok()).unwrap_or(if tier == "thorough" { 400_000 } else { 24_000 });
    let jobs: usize = arg_val(args, "--jobs").and_then(|x| x.parse().ok()).unwrap_or(16);
    let chunk: u64 = arg_val(args, "--chunk").and_then(|x| x.parse().ok()).unwrap_or(if tier == "thorough" { 500 } else { 250 });
    let out = PathBuf::from(arg_val(args, "--out").unwrap_or_else(|| "/verif/build/tmp/c16_shuttle.json".into()));
    let scratch = out.parent().unwrap().join(format!("c16s-{}", std::process::id()));
    let _ = std::fs::create_dir_all(&scratch);
    let timeout_s: u64 = arg_val(args, "--chunk-timeout").and_then(|x| x.parse().ok()).unwrap_or(if tier == "thorough" { 600 } else { 120 });
    let ncold: u64 = arg_val(args, "--cold").and_then(|x| x.parse().ok()).unwrap_or(if tier == "thorough" { 200_000 } else { 6_000 });
    let t0 = std::time::Instant::now();
    let nchunks = (runs + chunk - 1) / chunk;
    let exe = std::env::current_exe().unwrap();
    let mut inconclusive: Vec<u64> = vec![];
    let mut results: BTreeMap<u64, (i32, Value)> = BTreeMap::new();
    {
        let (exe, tier) = (exe.clone(), tier.clone());
        let mk = move |n: u64, of: &Path| {
            let mut c = std::process::Command::new(&exe);
            c.args(["worker", "--seed", &seed.to_string(), "--from", &(n * chunk).to_string(), "--to", &((n + 1) * chunk).min(runs).to_string(), "--tier", &tier, "--out"]).arg(of);
            c
        };
        match simcore::pool::run_chunks(nchunks, jobs, &scratch, std::time::Duration::from_secs(timeout_s), &mk) {
            Ok(r) => {
                for (n, cr) in r {
                    if cr.code == -9 {
                        inconclusive.push(n);
                    } else {
                        results.insert(n, (cr.code, cr.value));
                    }
                }
            }
            Err(e) => {
                eprintln!("HARNESS: {}", e);
                return 2;
            }
        }
    }
    // cold executions: one workload, one schedule, one fresh process each, so that state the
    // library keeps in plain statics (hand-rolled lazy initialisation, caches) is cold every
    // time; numbered after the warm chunks so that the merge order stays deterministic
    let warm_bad = results.iter().any(|(_, (c, _))| *c != 0);
    let engine_stuck = inconclusive.len() >= 3;
    if !warm_bad && ncold > 0 && !engine_stuck {
        let (exe, tier) = (exe.clone(), tier.clone());
        let mk = move |n: u64, of: &Path| {
            let mut c = std::process::Command::new(&exe);
            c.args(["cold", "--seed", &seed.to_string(), "--index", &n.to_string(), "--tier", &tier, "--out"]).arg(of);
            c
        };
        match simcore::pool::run_chunks(ncold, jobs, &scratch, std::time::Duration::from_secs(timeout_s), &mk) {
            Ok(r) => {
                for (n, cr) in r {
                    if cr.code == -9 {
                        inconclusive.push(nchunks + n);
                    } else {
                        results.insert(nchunks + n, (cr.code, cr.value));
                    }
                }
            }
            Err(e) => {
                eprintln!("HARNESS: {}", e);
                return 2;
            }
        }
    }
    let nsoak: u64 = arg_val(args, "--soak").and_then(|x| x.parse().ok()).unwrap_or(if tier == "thorough" { 480 } else { 48 });
    let bad_so_far = results.iter().any(|(_, (c, _))| *c != 0);
    if !bad_so_far && nsoak > 0 && !engine_stuck {
        let (exe, tier) = (exe.clone(), tier.clone());
        let mk = move |n: u64, of: &Path| {
            let mut c = std::process::Command::new(&exe);
            c.args(["soak", "--seed", &seed.to_string(), "--index", &n.to_string(), "--tier", &tier, "--out"]).arg(of);
            c
        };
        match simcore::pool::run_chunks(nsoak, jobs, &scratch, std::time::Duration::from_secs(timeout_s * 4), &mk) {
            Ok(r) => {
                for (n, cr) in r {
                    if cr.code == -9 {
                        inconclusive.push(nchunks + ncold + n);
                    } else {
                        results.insert(nchunks + ncold + n, (cr.code, cr.value));
                    }
                }
            }
            Err(e) => {
                eprintln!("HARNESS: {}", e);
                return 2;
            }
        }
    }
    let first_bad: Option<u64> = results.iter().find(|(_, (c, _))| *c != 0).map(|(n, _)| *n);
    // ---- merge (deterministic: by chunk index; chunks after the first bad one are ignored)
    let mut tot: BTreeMap<&str, u64> = BTreeMap::new();
    let keys = ["sim_clock_reads", "sim_clock_jumps_ge_1s", "soak_executions", "soak_calls", "cold_executions", "runs", "executions", "checked_executions", "sched_steps", "context_switches", "calls", "panicked_calls", "overlapping_pairs", "late_spawns", "early_exits", "multi_thread_execs", "distinct_all_count", "abstract_calls", "abstract_calls_seen_2plus", "abstract_calls_seen_10plus"];
    let mut first_use = [0u64; 4];
    let mut by_sched: BTreeMap<String, u64> = BTreeMap::new();
    let mut by_threads: BTreeMap<String, u64> = BTreeMap::new();
    let mut outcome_kinds: BTreeMap<String, u64> = BTreeMap::new();
    let mut coords: BTreeSet<(u64, u64, u64, u64)> = BTreeSet::new();
    let mut distinct: BTreeSet<String> = BTreeSet::new();
    let mut samples: Vec<Value> = vec![];
    let mut observed: Vec<Value> = vec![];
    let mut violation: Option<(u64, Value)> = None;
    let mut harness: Option<String> = None;
    for (n, (code, v)) in &results {
        if let Some(b) = first_bad {
            if *n > b {
                continue;
            }
        }
        for k in keys {
            *tot.entry(k).or_insert(0) += v.get(k).and_then(|x| x.as_u64()).unwrap_or(0);
        }
        if let Some(a) = v.get("first_use_overlaps").and_then(|x| x.as_array()) {
            for p in 0..4 {
                first_use[p] += a.get(p).and_then(|x| x.as_u64()).unwrap_or(0);
            }
        }
        for (name, tgt) in [("by_sched", &mut by_sched), ("by_threads", &mut by_threads), ("outcome_kinds", &mut outcome_kinds)] {
            if let Some(o) = v.get(name).and_then(|x| x.as_object()) {
                for (k, c) in o {
                    *tgt.entry(k.clone()).or_insert(0) += c.as_u64().unwrap_or(0);
                }
            }
        }
        if let Some(a) = v.get("coords").and_then(|x| x.as_array()) {
            for c in a {
                let g = |i: usize| c.get(i).and_then(|x| x.as_u64()).unwrap_or(0);
                coords.insert((g(0), g(1), g(2), g(3)));
            }
        }
        if let Some(a) = v.get("distinct_nontrivial").and_then(|x| x.as_array()) {
            for h in a {
                if let Some(s) = h.as_str() {
                    distinct.insert(s.to_string());
                }
            }
        }
        if samples.len() < 3 {
            if let Some(a) = v.get("samples").and_then(|x| x.as_array()) {
                samples.extend(a.iter().take(1).cloned());
            }
        }
        if let Some(a) = v.get("observed").and_then(|x| x.as_array()) {
            if observed.len() < 4096 {
                observed.extend(a.iter().take(16).cloned());
            }
        }
        if *code == 1 && violation.is_none() {
            if let Some(vi) = v.get("violation") {
                if !vi.is_null() {
                    violation = Some((*n, json!({"violation": vi, "failing_run": v.get("failing_run"), "chunk_from": v.get("from"), "chunk_to": v.get("to"), "cold_index": v.get("cold_index"), "soak_index": v.get("soak_index")})));
                }
            }
        }
        if *code == 2 && harness.is_none() {
            harness = Some(v.get("harness_error").and_then(|x| x.as_str()).unwrap_or("worker failed").to_string());
        }
    }
    // coordinate coverage self-check: every profile × kind × api form seen, every arg form seen
    let mut missing = vec![];
    for p in 0..4u64 {
        for k in 0..3u64 {
            for a in 0..API_FORMS.len() as u64 {
                if !coords.iter().any(|c| c.0 == p && c.1 == k && c.2 == a) {
                    missing.push(format!("{}.{} via {}", PROFILES[p as usize], KINDS[k as usize], API_FORMS[a as usize]));
                }
            }
        }
    }
    let arg_forms_seen: BTreeSet<u64> = coords.iter().filter(|c| c.1 != 2).map(|c| c.3).collect();
    let cmp_forms_seen: BTreeSet<u64> = coords.iter().filter(|c| c.1 == 2).map(|c| c.3).collect();
    let wall = t0.elapsed().as_secs_f64();
    let mut res = json!({
        "engine": "shuttle", "seed": seed, "tier": tier, "runs_requested": runs, "chunk": chunk, "jobs": jobs,
        "totals": tot, "first_use_overlaps": {"UsernameCaseMapped": first_use[0], "UsernameCasePreserved": first_use[1], "OpaqueString": first_use[2], "Nickname": first_use[3]},
        "by_scheduler": by_sched, "by_thread_count": by_threads, "outcome_kinds": outcome_kinds,
        "coordinate_cells_seen": coords.len(), "coordinate_cells_missing": missing,
        "arg_forms_seen": arg_forms_seen.len(), "compare_form_pairs_seen": cmp_forms_seen.len(),
        "distinct_nontrivial": distinct.len(),
        "samples": samples, "observed": observed,
        "inconclusive_chunks": inconclusive,
        "wall_s": wall,
        "executions_per_hour": if wall > 0.0 { (tot.get("executions").copied().unwrap_or(0) as f64 / wall * 3600.0) as u64 } else { 0 },
    });
    let mut code = 0;
    if let Some(h) = harness {
        res["harness_error"] = json!(h);
        code = 2;
    }
    if let Some((_n, v)) = violation {
        code = 1;
        // build the replay file: first try the explicit two-item form, else the seeded chunk prefix
        let viol = v["violation"].clone();
        let mut items = vec![];
        if let Some(w1) = viol.pointer("/first/coordinates/workload") {
            let w2 = viol.pointer("/second/coordinates/workload");
            // first observation: its exact schedule was not kept (only violating executions keep theirs);
            // lenient replay + search recovers an equivalent one, then strict replay confirms.
            if w2 != Some(w1) || viol.pointer("/first/coordinates/origin") != viol.pointer("/second/coordinates/origin") {
                items.push(json!({"workload": w1, "schedule_task_ids": []}));
            }
        }
        if let Some(w2) = viol.pointer("/second/coordinates/workload") {
            items.push(json!({"workload": w2, "schedule_task_ids": viol.pointer("/second/coordinates/schedule_task_ids").cloned().unwrap_or(json!([]))}));
        }
        let rdir = simcore::evidence::replay_dir();
        let _ = std::fs::create_dir_all(&rdir);
        let rpath = rdir.join(format!("C16-shuttle-{}{}.json", seed, simcore::evidence::replay_tag()));
        let header = |items: Vec<Value>, form: &str| json!({
            "property": "C16", "engine": "shuttle", "seed": seed, "tier": tier, "form": form,
            "history": items, "violation": strip(&viol),
            "how_to_replay": "/verif/check --replay <this file>",
        });
        let mut written = false;
        if !items.is_empty() {
            // establish schedules for items that have none, in a fresh process
            if let Some(vv) = try_in_fresh_process(&items, 64, &scratch) {
                if same_violation(&vv, &viol) {
                    refresh_schedule(&mut items, &vv);
                    let _ = write_json(&rpath, &header(items.clone(), "explicit"));
                    let strict_ok = std::process::Command::new(&exe).arg("replay").arg(&rpath).env_remove("SHUTTLE_RANDOM_SEED").output().map(|o| o.status.code() == Some(1)).unwrap_or(false);
                    if strict_ok {
                        written = true;
                        let mpath = rdir.join(format!("C16-shuttle-{}{}.min.json", seed, simcore::evidence::replay_tag()));
                        let st = std::process::Command::new(&exe).arg("minimise").arg(&rpath).arg("--out").arg(&mpath).env_remove("SHUTTLE_RANDOM_SEED").status();
                        if st.map(|s| s.code() == Some(0)).unwrap_or(false) && mpath.exists() {
                            let _ = std::fs::rename(&mpath, &rpath);
                        }
                    }
                }
            }
        }
        if !written && v["soak_index"].is_u64() {
            let _ = write_json(&rpath, &header(vec![json!({"seed": seed, "soak_index": v["soak_index"], "tier": tier})], "seeded_soak_execution"));
            written = true;
        }
        if !written && v["cold_index"].is_u64() {
            let _ = write_json(&rpath, &header(vec![json!({"seed": seed, "cold_index": v["cold_index"], "tier": tier})], "seeded_cold_execution"));
            written = true;
        }
        if !written {
            let from = v["chunk_from"].as_u64().unwrap_or(0);
            let fr = v["failing_run"].as_u64().unwrap_or(from);
            let _ = write_json(&rpath, &header(vec![json!({"seed": seed, "from": from, "to": fr + 1, "tier": tier})], "seeded_chunk_prefix"));
        }
        res["violation"] = strip(&viol);
        res["replay"] = json!(rpath.display().to_string());
    }
    let _ = std::fs::remove_dir_all(&scratch);
    let _ = write_json(&out, &res);
    code
}

fn main() {
    let args: Vec<String> = std::env::args().collect();
    let mode = args.get(1).map(|s| s.as_str()).unwrap_or("");
    let code = match mode {
        "worker" => {
            let seed = arg_val(&args, "--seed").and_then(|x| x.parse().ok()).unwrap_or_else(simcore::verif_seed);
            let from = arg_val(&args, "--from").and_then(|x| x.parse().ok()).unwrap_or(0);
            let to = arg_val(&args, "--to").and_then(|x| x.parse().ok()).unwrap_or(1);
            let tier = arg_val(&args, "--tier").unwrap_or_else(|| "quick".into());
            let (v, code) = worker(seed, from, to, &tier);
            match arg_val(&args, "--out") {
                Some(p) => {
                    let _ = write_json(Path::new(&p), &v);
                }
                None => println!("{}", serde_json::to_string(&v).unwrap()),
            }
            code
        }
        "cold" => {
            let seed = arg_val(&args, "--seed").and_then(|x| x.parse().ok()).unwrap_or_else(simcore::verif_seed);
            let index = arg_val(&args, "--index").and_then(|x| x.parse().ok()).unwrap_or(0);
            let tier = arg_val(&args, "--tier").unwrap_or_else(|| "quick".into());
            let (v, code) = cold(seed, index, &tier);
            match arg_val(&args, "--out") {
                Some(p) => {
                    let _ = write_json(Path::new(&p), &v);
                }
                None => println!("{}", serde_json::to_string(&v).unwrap()),
            }
            code
        }
        "soak" => {
            let seed = arg_val(&args, "--seed").and_then(|x| x.parse().ok()).unwrap_or_else(simcore::verif_seed);
            let index = arg_val(&args, "--index").and_then(|x| x.parse().ok()).unwrap_or(0);
            let tier = arg_val(&args, "--tier").unwrap_or_else(|| "quick".into());
            let (v, code) = soak(seed, index, &tier);
            match arg_val(&args, "--out") {
                Some(p) => {
                    let _ = write_json(Path::new(&p), &v);
                }
                None => println!("{}", serde_json::to_string(&v).unwrap()),
            }
            code
        }
        "driver" => cmd_driver(&args),
        "replay" => cmd_replay(Path::new(&args[2])),
        "try" => cmd_try(Path::new(&args[2]), arg_val(&args, "--search").and_then(|x| x.parse().ok()).unwrap_or(0)),
        "minimise" => cmd_minimise(Path::new(&args[2]), Path::new(&arg_val(&args, "--out").unwrap_or_else(|| format!("{}.min.json", args[2])))),
        _ => {
            eprintln!("usage: c16_shuttle worker|driver|replay|minimise …");
            2
        }
    };
    std::process::exit(code);
}
