//! C16 workload model, generator, stateless-object oracle and JSON forms.
//! Nothing here links the precis crates: the same model is used by the shuttle engine
//! (shadow build with the lazy_static seam), the Miri engine and the cold-start probe.

use crate::{hash_bytes, hash_combine, Rng};
use serde_json::{json, Value};
use std::collections::BTreeMap;

pub const PROFILES: [&str; 4] = ["UsernameCaseMapped", "UsernameCasePreserved", "OpaqueString", "Nickname"];
pub const KINDS: [&str; 3] = ["prepare", "enforce", "compare"];
/// How the profile is reached.
pub const API_FORMS: [&str; 6] = [
    "static",        // PrecisFastInvocation::… (lazy static singleton)
    "fresh_new",     // X::new() for this call only
    "fresh_default", // X::default() for this call only
    "shared_ref",    // one long-lived instance created before any thread starts, shared by reference
    "copied_in",     // long-lived instance created by the spawning thread and copied into this thread
    "cloned",        // .clone() of the thread's long-lived instance, per call
];
/// How a prepare/enforce argument is passed (`Into<Cow<str>>`).
pub const ARG_FORMS: [&str; 7] = ["&str", "String", "&String", "Cow::Borrowed", "Cow::Owned", "String(spare capacity)", "Cow::Owned(spare capacity)"];
/// How each compare argument is passed (`AsRef<str>`).
pub const CMP_FORMS: [&str; 4] = ["&str", "String", "Cow<str>", "Box<str>"];

#[derive(Clone, Debug, PartialEq, Eq)]
pub struct Call {
    pub profile: u8,
    pub kind: u8,
    pub api: u8,
    pub fa: u8, // argument form of first input
    pub fb: u8, // argument form of second input (compare only)
    pub a: usize,
    pub b: usize, // compare only
}

#[derive(Clone, Debug, PartialEq, Eq)]
pub struct ThreadPlan {
    /// spawning thread (index < own index); thread 0 is the root and has parent 0
    pub parent: usize,
    /// spawned after the parent has completed this many of its calls (clamped)
    pub after: usize,
    pub calls: Vec<Call>,
}

#[derive(Clone, Debug, PartialEq, Eq)]
pub struct Workload {
    pub pool: Vec<String>,
    pub threads: Vec<ThreadPlan>,
}

#[derive(Clone, Debug, PartialEq, Eq, PartialOrd, Ord)]
pub enum Outcome {
    OkStr(String),
    OkBool(bool),
    Err(String),
    Panicked,
}

impl Outcome {
    pub fn to_json(&self) -> Value {
        match self {
            Outcome::OkStr(s) => json!({"ok": s, "ok_escaped": esc(s)}),
            Outcome::OkBool(b) => json!({"ok_bool": b}),
            Outcome::Err(e) => json!({"err": e}),
            Outcome::Panicked => json!({"panicked": true}),
        }
    }
    pub fn from_json(v: &Value) -> Option<Outcome> {
        if let Some(s) = v.get("ok").and_then(|x| x.as_str()) {
            return Some(Outcome::OkStr(s.to_string()));
        }
        if let Some(b) = v.get("ok_bool").and_then(|x| x.as_bool()) {
            return Some(Outcome::OkBool(b));
        }
        if let Some(s) = v.get("err").and_then(|x| x.as_str()) {
            return Some(Outcome::Err(s.to_string()));
        }
        if v.get("panicked").is_some() {
            return Some(Outcome::Panicked);
        }
        None
    }
    /// One-line form used between processes (cold start, Miri): tag + hex.
    pub fn to_line(&self) -> String {
        match self {
            Outcome::OkStr(s) => format!("S{}", crate::hex(s.as_bytes())),
            Outcome::OkBool(b) => format!("B{}", *b as u8),
            Outcome::Err(e) => format!("E{}", crate::hex(e.as_bytes())),
            Outcome::Panicked => "P".to_string(),
        }
    }
    pub fn from_line(l: &str) -> Option<Outcome> {
        let (t, r) = l.split_at(1.min(l.len()));
        match t {
            "S" => Some(Outcome::OkStr(String::from_utf8(crate::unhex(r)?).ok()?)),
            "B" => Some(Outcome::OkBool(r == "1")),
            "E" => Some(Outcome::Err(String::from_utf8(crate::unhex(r)?).ok()?)),
            "P" => Some(Outcome::Panicked),
            _ => None,
        }
    }
}

pub fn esc(s: &str) -> String {
    s.chars()
        .map(|c| if c.is_ascii_graphic() || c == ' ' { c.to_string() } else { format!("\\u{{{:x}}}", c as u32) })
        .collect()
}

/// The abstract call: what the result is allowed to depend on.
#[derive(Clone, Debug, PartialEq, Eq, PartialOrd, Ord, Hash)]
pub struct AbstractCall {
    pub profile: u8,
    pub kind: u8,
    pub a: String,
    pub b: String, // empty unless compare
}

impl AbstractCall {
    pub fn of(w: &Workload, c: &Call) -> AbstractCall {
        AbstractCall {
            profile: c.profile,
            kind: c.kind,
            a: w.pool[c.a].clone(),
            b: if c.kind == 2 { w.pool[c.b].clone() } else { String::new() },
        }
    }
    pub fn to_json(&self) -> Value {
        if self.kind == 2 {
            json!({"profile": PROFILES[self.profile as usize], "kind": KINDS[self.kind as usize],
                   "a": self.a, "a_escaped": esc(&self.a), "b": self.b, "b_escaped": esc(&self.b)})
        } else {
            json!({"profile": PROFILES[self.profile as usize], "kind": KINDS[self.kind as usize],
                   "a": self.a, "a_escaped": esc(&self.a)})
        }
    }
    pub fn key(&self) -> String {
        format!(
            "{}.{}({}{})",
            PROFILES[self.profile as usize],
            KINDS[self.kind as usize],
            esc(&self.a),
            if self.kind == 2 { format!(", {}", esc(&self.b)) } else { String::new() }
        )
    }
}

/// One completed call as recorded in the history.
#[derive(Clone, Debug)]
pub struct Event {
    pub thread: usize,
    pub idx: usize,
    pub invoke_seq: u64,
    pub return_seq: u64,
    pub call: Call,
    pub outcome: Outcome,
}

#[derive(Clone, Debug)]
pub struct Seen {
    pub outcome: Outcome,
    pub coord: Value,
    pub count: u64,
}

/// Reference model: a stateless object. A history is consistent with *some* stateless object
/// iff no two events with the same abstract call carry different outcomes.
#[derive(Default)]
pub struct Oracle {
    pub m: BTreeMap<AbstractCall, Seen>,
}

#[derive(Clone, Debug)]
pub struct Mismatch {
    pub call: AbstractCall,
    pub first: Seen,
    pub second_outcome: Outcome,
    pub second_coord: Value,
}

impl Mismatch {
    pub fn to_json(&self) -> Value {
        json!({
            "kind": "outcome_depends_on_more_than_the_arguments",
            "abstract_call": self.call.to_json(),
            "first": {"outcome": self.first.outcome.to_json(), "coordinates": self.first.coord},
            "second": {"outcome": self.second_outcome.to_json(), "coordinates": self.second_coord},
        })
    }
}

impl Oracle {
    pub fn observe(&mut self, ac: AbstractCall, outcome: &Outcome, coord: impl FnOnce() -> Value) -> Result<(), Mismatch> {
        match self.m.get_mut(&ac) {
            None => {
                self.m.insert(ac, Seen { outcome: outcome.clone(), coord: coord(), count: 1 });
                Ok(())
            }
            Some(s) => {
                if &s.outcome == outcome {
                    s.count += 1;
                    Ok(())
                } else {
                    Err(Mismatch { call: ac, first: s.clone(), second_outcome: outcome.clone(), second_coord: coord() })
                }
            }
        }
    }
}

pub fn coord_json(origin: &str, ev: &Event, nthreads: usize) -> Value {
    let c = &ev.call;
    json!({
        "origin": origin,
        "thread": ev.thread, "threads_in_execution": nthreads, "index_in_thread": ev.idx,
        "invoke_seq": ev.invoke_seq, "return_seq": ev.return_seq,
        "api_form": API_FORMS[c.api as usize],
        "arg_form": if c.kind == 2 { format!("{} / {}", CMP_FORMS[c.fa as usize], CMP_FORMS[c.fb as usize]) } else { ARG_FORMS[c.fa as usize].to_string() },
    })
}

// ---------------------------------------------------------------- JSON forms

impl Call {
    pub fn to_json(&self) -> Value {
        json!([self.profile, self.kind, self.api, self.fa, self.fb, self.a, self.b])
    }
    pub fn from_json(v: &Value) -> Option<Call> {
        let a = v.as_array()?;
        if a.len() != 7 {
            return None;
        }
        let n = |i: usize| a[i].as_u64();
        Some(Call { profile: n(0)? as u8, kind: n(1)? as u8, api: n(2)? as u8, fa: n(3)? as u8, fb: n(4)? as u8, a: n(5)? as usize, b: n(6)? as usize })
    }
    pub fn describe(&self, w: &Workload) -> String {
        let ac = AbstractCall::of(w, self);
        format!("{} via {} [{}]", ac.key(), API_FORMS[self.api as usize],
            if self.kind == 2 { format!("{} / {}", CMP_FORMS[self.fa as usize], CMP_FORMS[self.fb as usize]) } else { ARG_FORMS[self.fa as usize].to_string() })
    }
    pub fn valid(&self, pool: usize) -> bool {
        (self.profile as usize) < PROFILES.len()
            && (self.kind as usize) < KINDS.len()
            && (self.api as usize) < API_FORMS.len()
            && self.a < pool
            && if self.kind == 2 {
                (self.fa as usize) < CMP_FORMS.len() && (self.fb as usize) < CMP_FORMS.len() && self.b < pool
            } else {
                (self.fa as usize) < ARG_FORMS.len()
            }
    }
}

impl Workload {
    pub fn to_json(&self) -> Value {
        json!({
            "pool_hex": self.pool.iter().map(|s| crate::hex(s.as_bytes())).collect::<Vec<_>>(),
            "pool_escaped": self.pool.iter().map(|s| esc(s)).collect::<Vec<_>>(),
            "threads": self.threads.iter().map(|t| json!({
                "parent": t.parent, "after": t.after,
                "calls": t.calls.iter().map(|c| c.to_json()).collect::<Vec<_>>(),
            })).collect::<Vec<_>>(),
            "legend": "call = [profile, kind, api_form, arg_form_a, arg_form_b, pool index a, pool index b]",
        })
    }
    pub fn from_json(v: &Value) -> Option<Workload> {
        let pool = v.get("pool_hex")?.as_array()?.iter()
            .map(|x| String::from_utf8(crate::unhex(x.as_str()?)?).ok())
            .collect::<Option<Vec<_>>>()?;
        let mut threads = vec![];
        for t in v.get("threads")?.as_array()? {
            threads.push(ThreadPlan {
                parent: t.get("parent")?.as_u64()? as usize,
                after: t.get("after")?.as_u64()? as usize,
                calls: t.get("calls")?.as_array()?.iter().map(Call::from_json).collect::<Option<Vec<_>>>()?,
            });
        }
        let w = Workload { pool, threads };
        if w.valid() { Some(w) } else { None }
    }
    pub fn valid(&self) -> bool {
        !self.threads.is_empty()
            && self.threads.iter().enumerate().all(|(i, t)| (i == 0 || t.parent < i) && t.calls.iter().all(|c| c.valid(self.pool.len())))
    }
    pub fn hash(&self) -> u64 {
        hash_bytes(self.to_json().to_string().as_bytes())
    }
    pub fn ncalls(&self) -> usize {
        self.threads.iter().map(|t| t.calls.len()).sum()
    }
    /// Compact one-line form for argv (Miri, cold start): JSON without the human-readable parts.
    pub fn to_arg(&self) -> String {
        let v = json!({
            "pool_hex": self.pool.iter().map(|s| crate::hex(s.as_bytes())).collect::<Vec<_>>(),
            "threads": self.threads.iter().map(|t| json!({
                "parent": t.parent, "after": t.after,
                "calls": t.calls.iter().map(|c| c.to_json()).collect::<Vec<_>>(),
            })).collect::<Vec<_>>(),
        });
        v.to_string()
    }
}

// ---------------------------------------------------------------- generation

/// Literals used by the repository's own tests and docs, plus inputs on which the pipelines
/// are known (from reading) to take unusual paths. `Panicked` is an ordinary outcome for C16.
pub const LITERALS: &[&str] = &[
    "", "Guybrush", "Guybrush Threepwood", "   Guybrush     Threepwood  ", "guybrush threepwood",
    "juliet@example.com", "fussball", "fu\u{df}ball", "\u{3c0}", "\u{3a3}", "\u{3c3}", "\u{3c2}",
    "\u{265a}", "foo bar", "\u{ff21}\u{ff22}", "\u{ff76}", "\u{212b}", "a\u{212b}", "e\u{301}", "\u{e9}",
    "correct horse battery staple", "Correct Horse Battery Staple", "\u{3c0}\u{df}\u{e5}", "Jack of \u{2666}s",
    "foo\u{1680}bar", "my cat is a \u{9}by", "\u{20ac} ", "\u{e9}  x", "\u{5d0}\u{5b0}\u{5d1}", "\u{1c5}", "A\u{1c5}",
    "Foo", "foo", "Foo Bar", "  foo  bar ", "\u{3a3}\u{3c2}", "\u{2163}", "\u{fb01}", "\u{a8}", "\u{fdfa}", "x\u{b4}",
    "l\u{b7}l", "a\u{200d}", "\u{94d}\u{200d}", "\u{627}\u{660}", "\u{660}\u{6f0}", "\u{5d0}1", "1\u{5d0}", "\u{5d0}a",
    "\u{30fb}", "\u{30a2}\u{30fb}", "\u{375}\u{3b1}", "\u{5d0}\u{5f3}", "\u{1f412}", "a\u{0}", "\u{378}", "\u{e000}",
    "\u{391}\u{3a3}", "\u{39f}\u{394}\u{3a5}\u{3a3}\u{3a3}\u{395}\u{3a5}\u{3a3}", "a\u{3a3}", "A\u{3a3}.\u{391}\u{3a3}", "\u{3a3}\u{391}",
    "\u{995}\u{9c7}\u{9be}", "a\u{b95}\u{bc6}\u{bbe}", "\u{ac00}\u{11a8}", "\u{1025}\u{102e}",
    "\u{130}", "\u{1e9e}", "\u{3000}a\u{3000}", "\u{a0}", " ", "  ", "a ", " a", "\u{2003}\u{2003}", "\u{1d400}",
    "\u{2460}", "\u{2122}", "\u{ad}", "\u{fffd}", "\u{10ffff}", "I\u{307}", "\u{1f88}", "\u{1f80}",
];

const TOKENS: &[&[&str]] = &[
    /* 0 ascii lower  */ &["a", "b", "z", "foo", "x", "l"],
    /* 1 ascii upper  */ &["A", "B", "Z", "Foo", "X", "I"],
    /* 2 digits/punct */ &["0", "9", "-", "_", ".", "@", "!", "~"],
    /* 3 ascii space  */ &[" ", "  ", "   "],
    /* 4 non-ascii sp */ &["\u{a0}", "\u{1680}", "\u{2000}", "\u{2003}", "\u{202f}", "\u{205f}", "\u{3000}"],
    /* 5 wide/narrow  */ &["\u{ff21}", "\u{ff41}", "\u{ff10}", "\u{ff76}", "\u{ffe6}", "\u{ff01}", "\u{ffa1}", "\u{3000}"],
    /* 6 cased non-ascii */ &["\u{c9}", "\u{e9}", "\u{3a3}", "\u{3c3}", "\u{3c2}", "\u{130}", "\u{df}", "\u{1e9e}", "\u{1c5}", "\u{1c4}", "\u{1f88}", "\u{10400}", "\u{24b6}", "\u{2160}",
        // context-sensitive lowercasing (Final_Sigma) and multi-character lowercase expansions
        "\u{391}\u{3a3}", "a\u{3a3}", "\u{3a3}\u{3a3}", "\u{3a3}\u{391}", "I\u{307}\u{3a3}"],
    /* 7 decomposed   */ &["e\u{301}", "A\u{30a}", "\u{212b}", "\u{2126}", "\u{1e0b}\u{323}", "\u{3a9}", "o\u{308}\u{304}", "\u{1100}\u{1161}", "\u{ac00}",
        // starters that combine backwards (NFC_QC = Maybe with combining class 0): second halves of
        // Indic two-part vowels, Hangul trailing consonants, Myanmar/Sinhala/Tibetan vowel signs
        "\u{995}\u{9c7}\u{9be}", "\u{b95}\u{bc6}\u{bbe}", "\u{d15}\u{d46}\u{d3e}", "\u{c95}\u{cc6}\u{cd5}", "\u{ac00}\u{11a8}", "\u{1025}\u{102e}", "\u{d9a}\u{dd9}\u{dcf}", "\u{f40}\u{f74}\u{f73}", "\u{b95}\u{bc7}\u{bbe}"],
    /* 8 rtl          */ &["\u{5d0}", "\u{5d1}", "\u{628}", "\u{627}", "\u{5b0}", "\u{64b}", "\u{6cc}"],
    /* 9 digits other */ &["\u{660}", "\u{669}", "\u{6f0}", "\u{6f9}", "\u{966}", "1"],
    /* 10 contextj    */ &["\u{200d}", "\u{200c}", "\u{94d}\u{200d}", "\u{94d}\u{200c}", "\u{915}\u{94d}"],
    /* 11 contexto    */ &["\u{b7}", "l\u{b7}l", "\u{375}", "\u{375}\u{3b1}", "\u{5f3}", "\u{5f4}", "\u{30fb}", "\u{30a2}"],
    /* 12 disallowed  */ &["\u{0}", "\u{7f}", "\u{ad}", "\u{e000}", "\u{fffd}", "\u{202e}", "\u{fe00}", "\u{2028}", "\u{115f}"],
    /* 13 unassigned  */ &["\u{378}", "\u{e0080}", "\u{10ffff}", "\u{2fe0}", "\u{1fffe}"],
    /* 14 compat      */ &["\u{2163}", "\u{fb01}", "\u{2122}", "\u{2460}", "\u{1d400}", "\u{b2}", "\u{bd}", "\u{3392}", "\u{2474}"],
    /* 15 nfkc spaces */ &["\u{a8}", "\u{b4}", "\u{fdfa}", "\u{2dc}", "\u{203e}", "\u{309b}", "\u{fe49}", "\u{ff3f}"],
    /* 16 symbols/4b  */ &["\u{1f412}", "\u{2620}", "\u{265a}", "\u{2666}", "\u{20ac}", "\u{1f435}", "\u{4e2d}", "\u{3042}"],
];
pub const TOKEN_CLASS_NAMES: [&str; 17] = [
    "ascii_lower", "ascii_upper", "ascii_digit_punct", "ascii_space", "non_ascii_space", "wide_narrow", "cased_non_ascii",
    "decomposed", "rtl", "other_digits", "contextj", "contexto", "disallowed", "unassigned", "compat", "nfkc_makes_space", "symbols_4byte",
];

#[derive(Clone, Debug)]
pub struct GenCfg {
    pub max_threads: usize,
    pub max_calls: usize,
    /// allow inputs of 64 B .. 16 KiB (not under Miri, where every byte costs microseconds)
    pub long_inputs: bool,
}

pub fn gen_string(rng: &mut Rng, enabled: &[usize]) -> String {
    let n = match rng.below(10) {
        0 => 0,
        1..=4 => 1 + rng.usize_below(2),
        5..=8 => 2 + rng.usize_below(4),
        _ => 4 + rng.usize_below(8),
    };
    let mut s = String::new();
    for _ in 0..n {
        let cls = enabled[rng.usize_below(enabled.len())];
        let toks: &[&str] = TOKENS[cls];
        s.push_str(toks[rng.usize_below(toks.len())]);
    }
    s
}

/// Variants of `s`: spellings the profiles may or may not treat as equivalent (for compare
/// calls), and near-duplicates that collide with `s` under coarse keys (same length, same
/// prefix, same suffix, same characters in another order) — what a memo or cache keyed by less
/// than the whole input would confuse.
fn variant(rng: &mut Rng, s: &str) -> String {
    let chars: Vec<char> = s.chars().collect();
    let same_width = |c: char, rng: &mut Rng| -> char {
        // another character of the same UTF-8 length
        let alts: &[char] = match c.len_utf8() {
            1 => &['a', 'b', 'Z', 'q', '0', '7', '-', ' ', 'A'],
            2 => &['\u{e9}', '\u{df}', '\u{3c3}', '\u{5d0}', '\u{a0}', '\u{c9}', '\u{3a3}'],
            3 => &['\u{20ac}', '\u{3042}', '\u{ff21}', '\u{3000}', '\u{212b}', '\u{2003}', '\u{4e2d}'],
            _ => &['\u{1f412}', '\u{1d400}', '\u{10400}', '\u{1f435}'],
        };
        let mut n = alts[rng.usize_below(alts.len())];
        if n == c {
            n = alts[(alts.iter().position(|x| *x == c).unwrap() + 1) % alts.len()];
        }
        n
    };
    match rng.below(15) {
        // a code point "twin": one character with one of bits 8..20 flipped — what a table or memo
        // indexed by a truncated or masked code point (cp & 0xFFFF, cp % 1024, 20 bits of 21) confuses
        12..=14 if !chars.is_empty() => {
            let mut v = chars.clone();
            let i = rng.usize_below(v.len());
            let c = v[i] as u32;
            let mut done = false;
            for _ in 0..8 {
                let bit = 8 + rng.below(13) as u32;
                if let Some(t) = char::from_u32(c ^ (1 << bit)) {
                    v[i] = t;
                    done = true;
                    break;
                }
            }
            if !done {
                v[i] = same_width(v[i], rng);
            }
            v.into_iter().collect()
        }
        0 => s.to_uppercase(),
        1 => s.to_lowercase(),
        2 => format!(" {} ", s),
        3 => s.replace(' ', "\u{3000}"),
        4 => s.replace(' ', "  "),
        5 => s.chars().map(|c| if ('!'..='~').contains(&c) { char::from_u32(c as u32 + 0xfee0).unwrap() } else { c }).collect(),
        6 => s.chars().rev().collect(),
        // same byte length, same prefix: last character replaced
        7 | 8 if !chars.is_empty() => {
            let mut v = chars.clone();
            let i = v.len() - 1;
            v[i] = same_width(v[i], rng);
            v.into_iter().collect()
        }
        // same byte length, same suffix: first character replaced
        9 if !chars.is_empty() => {
            let mut v = chars.clone();
            v[0] = same_width(v[0], rng);
            v.into_iter().collect()
        }
        // same length, same ends: a middle character replaced
        10 if chars.len() >= 3 => {
            let mut v = chars.clone();
            let i = 1 + rng.usize_below(v.len() - 2);
            v[i] = same_width(v[i], rng);
            v.into_iter().collect()
        }
        // same multiset of characters: two adjacent characters swapped
        _ if chars.len() >= 2 => {
            let mut v = chars.clone();
            let i = rng.usize_below(v.len() - 1);
            v.swap(i, i + 1);
            v.into_iter().collect()
        }
        _ => format!("{}a", s),
    }
}

pub fn gen_workload(rng: &mut Rng, cfg: &GenCfg) -> Workload {
    // swarm: which token classes, profiles, kinds, api forms are enabled for this run
    let mut enabled: Vec<usize> = (0..TOKENS.len()).filter(|&c| if c == 12 || c == 13 { rng.chance(1, 8) } else { rng.chance(1, 3) }).collect();
    if enabled.is_empty() {
        enabled.push(rng.usize_below(TOKENS.len()));
    }
    let subset = |rng: &mut Rng, n: usize| -> Vec<u8> {
        let mut v: Vec<u8> = (0..n as u8).filter(|_| rng.chance(2, 3)).collect();
        if v.is_empty() {
            v.push(rng.below(n as u64) as u8);
        }
        v
    };
    let profiles = subset(rng, PROFILES.len());
    let kinds = subset(rng, KINDS.len());
    let mut apis = subset(rng, API_FORMS.len());
    if !apis.contains(&0) && rng.chance(3, 4) {
        apis.push(0); // the static form is the one with shared state; keep it in most runs
    }
    let pool_n = 3 + rng.usize_below(14);
    let mut pool: Vec<String> = vec![];
    while pool.len() < pool_n {
        // now and then an input whose byte length sits on a power of two (64 B .. 16 KiB): block-
        // wise or threshold-switched fast paths change behaviour exactly there
        if cfg.long_inputs && rng.chance(1, 60) {
            // 64 B .. 1 KiB mostly, up to 4 KiB (quick) / 16 KiB (thorough) now and then: a call on
            // a 16 KiB input costs about a millisecond, a thousand times the usual
            let k = if rng.chance(3, 4) { 6 + rng.usize_below(5) } else { 6 + rng.usize_below(if cfg.max_threads > 4 { 9 } else { 7 }) };
            let boundary = 1usize << k;
            if rng.chance(1, 2) {
                // fault placement: an interesting two-part sequence laid exactly across the byte
                // boundary 2^k (a base and its combining mark, a jamo pair, two spaces, a cased
                // letter and a final sigma, an RTL letter and a digit, a virama and a joiner, or a
                // multi-byte character whose own bytes straddle the boundary)
                let pairs: [(&str, &str); 12] = [
                    ("e", "\u{301}"), ("A", "\u{30a}"), ("\u{1e0b}", "\u{323}"), ("o\u{308}", "\u{304}"), (" ", " "), ("a", "\u{3a3}"),
                    ("\u{5d0}", "1"), ("\u{ff21}", "\u{ff22}"), ("\u{915}\u{94d}", "\u{200d}"), ("l\u{b7}", "l"), ("\u{1100}", "\u{1161}"), ("", "\u{e9}"),
                ];
                let (first, second) = pairs[rng.usize_below(pairs.len())];
                let straddle = if first.is_empty() { 1 } else { 0 }; // "" + 2-byte char: put its first byte before the boundary
                let fill = boundary.saturating_sub(first.len() + straddle);
                let filler = ["a", "ab", "x1", "Ab"][rng.usize_below(4)];
                let mut s = String::new();
                while s.len() + filler.len() <= fill {
                    s.push_str(filler);
                }
                while s.len() < fill {
                    s.push('a');
                }
                s.push_str(first);
                s.push_str(second);
                for _ in 0..rng.usize_below(4) {
                    s.push_str(filler);
                }
                pool.push(s);
                continue;
            }
            let unit = gen_string(rng, &enabled);
            if !unit.is_empty() {
                let target = boundary + rng.usize_below(5) - 2;
                let mut s = String::new();
                while s.len() + unit.len() <= target {
                    s.push_str(&unit);
                }
                while s.len() < target {
                    s.push('a');
                }
                pool.push(s);
                continue;
            }
        }
        let s = match rng.below(10) {
            0..=2 => rng.pick(LITERALS).to_string(),
            3..=5 if !pool.is_empty() => {
                let base = pool[rng.usize_below(pool.len())].clone();
                variant(rng, &base)
            }
            _ => gen_string(rng, &enabled),
        };
        pool.push(s);
    }
    // "caller crash mid-call" needs a call that panics: in one run of six make sure the pool holds
    // an input on which the current library is known to panic (a C01 matter in itself; for C16 it
    // is the only way to leave a call by unwinding)
    if rng.chance(1, 6) {
        let p = ["\u{20ac} ", "\u{e9}  x", "\u{65e5}\u{672c}\u{8a9e}  x", "\u{3a9} "];
        pool.push(p[rng.usize_below(p.len())].to_string());
    }
    // compare calls of a run mostly share one or two right-hand sides (state keyed by one side)
    let rhs: Vec<usize> = (0..1 + rng.usize_below(2)).map(|_| rng.usize_below(pool.len())).collect();
    let nthreads = 1 + rng.usize_below(cfg.max_threads);
    let hot = rng.chance(1, 2); // half of the runs hammer very few abstract calls
    let hot_calls: Vec<(u8, u8, usize, usize)> = (0..1 + rng.usize_below(3))
        .map(|_| (*rng.pick(&profiles), *rng.pick(&kinds), rng.usize_below(pool.len()), rng.usize_below(pool.len())))
        .collect();
    let mut threads = vec![];
    for t in 0..nthreads {
        let ncalls = if t == 0 && rng.chance(1, 6) { 0 } else { 1 + rng.usize_below(cfg.max_calls) };
        let mut calls = vec![];
        for _ in 0..ncalls {
            let (profile, kind, a, mut b) = if hot && rng.chance(3, 4) {
                *rng.pick(&hot_calls)
            } else {
                (*rng.pick(&profiles), *rng.pick(&kinds), rng.usize_below(pool.len()), rng.usize_below(pool.len()))
            };
            if kind == 2 && rng.chance(1, 2) {
                b = *rng.pick(&rhs);
            }
            let api = *rng.pick(&apis);
            let (fa, fb) = if kind == 2 {
                (rng.below(CMP_FORMS.len() as u64) as u8, rng.below(CMP_FORMS.len() as u64) as u8)
            } else {
                (rng.below(ARG_FORMS.len() as u64) as u8, 0)
            };
            calls.push(Call { profile, kind, api, fa, fb, a, b: if kind == 2 { b } else { 0 } });
        }
        let (parent, after) = if t == 0 {
            (0, 0)
        } else {
            let parent = if rng.chance(2, 3) { 0 } else { rng.usize_below(t) };
            // most threads start at once (first-use races); some join late
            let after = if rng.chance(2, 3) { 0 } else { rng.usize_below(cfg.max_calls + 1) };
            (parent, after)
        };
        threads.push(ThreadPlan { parent, after, calls });
    }
    Workload { pool, threads }
}

/// "Phased" workload: every thread has the same number of calls and, in phase k, all threads
/// call (one of) the same one or two profiles with inputs built from the same token class. A
/// structure that the library builds lazily for one feature (a per-script table, a per-profile
/// cell, a cache for one kind of character) is then first used by all threads at the same
/// moment, which is where a hand-rolled lazy initialisation shows a half-built state.
pub fn gen_phased_workload(rng: &mut Rng, nthreads: usize, phases: usize) -> Workload {
    let mut pool: Vec<String> = vec![];
    let mut threads: Vec<ThreadPlan> = (0..nthreads).map(|_| ThreadPlan { parent: 0, after: 0, calls: vec![] }).collect();
    for _ in 0..phases {
        let cls = rng.usize_below(TOKENS.len());
        let profs: Vec<u8> = if rng.chance(1, 2) { vec![rng.below(4) as u8] } else { vec![rng.below(4) as u8, rng.below(4) as u8] };
        // 1-3 strings of this class (short: Miri interprets every table lookup)
        let base = pool.len();
        let nstr = 1 + rng.usize_below(3);
        for _ in 0..nstr {
            let toks: &[&str] = TOKENS[cls];
            let mut st = String::new();
            if rng.chance(1, 3) {
                st.push_str(TOKENS[0][rng.usize_below(TOKENS[0].len())]);
            }
            for _ in 0..1 + rng.usize_below(3) {
                st.push_str(toks[rng.usize_below(toks.len())]);
            }
            pool.push(st);
        }
        for t in threads.iter_mut() {
            let kind = rng.below(3) as u8;
            let profile = profs[rng.usize_below(profs.len())];
            let api = if rng.chance(1, 2) { 0 } else { rng.below(API_FORMS.len() as u64) as u8 };
            let (fa, fb) = if kind == 2 { (rng.below(4) as u8, rng.below(4) as u8) } else { (rng.below(ARG_FORMS.len() as u64) as u8, 0) };
            let a = base + rng.usize_below(nstr);
            let b = if kind == 2 { base + rng.usize_below(nstr) } else { 0 };
            t.calls.push(Call { profile, kind, api, fa, fb, a, b });
        }
    }
    Workload { pool, threads }
}

/// "Crash-recovery" workload: op, the same kind of op crashing half-way (a call that panics and
/// is caught), the first op again - the classic crash-consistency probe, with the library call as
/// the unit. The crashing call shares profile, operation, API form and (for compare) one side with
/// the surrounding calls, so that whatever the library checked out, locked or half-updated for
/// that side when the panic unwound is what the next call meets.
pub const PANICKING_INPUTS: [&str; 5] = ["\u{20ac} ", "\u{e9}  x", "\u{65e5}\u{672c}\u{8a9e}  x", "\u{3a9} ", "a\u{df}  "];

pub fn gen_crash_workload(rng: &mut Rng) -> Workload {
    let profile = if rng.chance(3, 4) { 3 } else { rng.below(4) as u8 }; // the known panics are in the nickname rules
    let api = if rng.chance(3, 4) { 0 } else { rng.below(API_FORMS.len() as u64) as u8 };
    let all: Vec<usize> = (0..TOKENS.len()).collect();
    let mut pool: Vec<String> = vec![];
    let base = match rng.below(3) {
        0 => LITERALS[rng.usize_below(LITERALS.len())].to_string(),
        1 => ["Guybrush", "foo", "Foo Bar", "lechuck", "x"][rng.usize_below(5)].to_string(),
        _ => gen_string(rng, &all),
    };
    pool.push(base.clone()); // 0: x
    pool.push(if rng.chance(1, 2) { base.clone() } else { variant(rng, &base) }); // 1: R, equal or nearly equal to x
    pool.push(PANICKING_INPUTS[rng.usize_below(PANICKING_INPUTS.len())].to_string()); // 2: P
    pool.push(gen_string(rng, &all)); // 3: y
    let nthreads = 1 + rng.usize_below(2);
    let mut threads = vec![];
    for t in 0..nthreads {
        let mut calls = vec![];
        let kind = if rng.chance(2, 3) { 2 } else { 1 };
        let mk = |a: usize, b: usize, rng: &mut Rng| Call {
            profile, kind, api,
            fa: if kind == 2 { rng.below(4) as u8 } else { rng.below(ARG_FORMS.len() as u64) as u8 },
            fb: if kind == 2 { rng.below(4) as u8 } else { 0 },
            a, b: if kind == 2 { b } else { 0 },
        };
        let crash_left = rng.chance(2, 3);
        calls.push(mk(0, 1, rng));
        if rng.chance(1, 2) {
            calls.push(mk(3, 1, rng));
        }
        calls.push(if crash_left { mk(2, 1, rng) } else { mk(0, 2, rng) }); // the crash
        calls.push(mk(0, 1, rng));
        calls.push(mk(3, 1, rng));
        calls.push(mk(1, 1, rng));
        // and the same questions through a fresh instance, for the oracle to compare with
        let n = calls.len();
        for i in 0..n {
            let mut c = calls[i].clone();
            c.api = 1;
            calls.push(c);
        }
        threads.push(ThreadPlan { parent: 0, after: if t == 0 { 0 } else { rng.usize_below(3) }, calls });
    }
    Workload { pool, threads }
}

/// "Soak" workload: long call histories in one process. Thread 0 evaluates a probe set, then
/// issues `k` calls of ordinary traffic (optionally while a second thread does the same), then
/// evaluates the probe set again. Anything the library accumulates across calls — counters,
/// adaptive fast paths, caches that fill up, sticky error flags — shows as a probe whose answer
/// changed, or as a traffic call answered differently from its earlier self.
pub const SOAK_TRAFFIC: [&str; 7] = ["ascii_identifiers", "ascii_with_spaces", "mostly_rejected", "one_input_repeated", "mixed_unicode", "rtl_and_digits", "many_distinct_inputs"];

pub fn gen_soak_workload(rng: &mut Rng, k: usize, traffic: usize, two_threads: bool) -> Workload {
    let mut pool: Vec<String> = vec![];
    // ---- probe inputs: literals, every token class, near-duplicates
    for l in LITERALS {
        pool.push(l.to_string());
    }
    let all: Vec<usize> = (0..TOKENS.len()).collect();
    for c in 0..TOKENS.len() {
        for _ in 0..2 {
            pool.push(gen_string(rng, &[c]));
        }
        pool.push(gen_string(rng, &[c, 0]));
    }
    for _ in 0..24 {
        pool.push(gen_string(rng, &all));
    }
    let nprobe_inputs = pool.len();
    // ---- traffic inputs
    let names = ["alice", "bob", "carol", "dave", "erin", "frank", "grace", "heidi", "ivan", "judy", "mallory", "oscar", "peggy", "trent", "victor", "walter"];
    let tstart = pool.len();
    // "many distinct inputs": as many different strings as a bounded cache can be asked to hold
    let ntraffic = if traffic == 3 { 1 } else if traffic == 6 { (k / 2).clamp(300, 40_000) } else { 48 };
    for i in 0..ntraffic {
        let n = names[rng.usize_below(names.len())];
        let m = names[rng.usize_below(names.len())];
        let s = match traffic {
            0 => match i % 4 { 0 => n.to_string(), 1 => format!("{}{}", n, rng.below(1000)), 2 => format!("{}.{}", n, m), _ => format!("{}{}", n[..1].to_uppercase(), &n[1..]) },
            1 => match i % 3 { 0 => format!("{} {}", n, m), 1 => format!("{}  {} ", n, m), _ => format!("{} {}", n[..1].to_uppercase() + &n[1..], m) },
            2 => if i % 2 == 0 { format!("{}\u{0}", n) } else { format!("{} {}\t", n, m) },
            3 => n.to_string(),
            4 => gen_string(rng, &all),
            5 => gen_string(rng, &[8, 9, 0]),
            _ => match i % 5 { 0 => format!("{}{}", n, i), 1 => format!("{} {}", m, i), 2 => format!("{}{}", &n[..1].to_uppercase(), i), 3 => format!("{}\u{e9}{}", n, i), _ => format!("u{}", i) },
        };
        pool.push(s);
    }
    // a little of everything else, so that "ascii-heavy" means ~94%, not 100%
    let xstart = pool.len();
    for _ in 0..8 {
        pool.push(gen_string(rng, &all));
    }
    let dominant = rng.below(4) as u8;
    let mut probe_calls = vec![];
    for a in 0..nprobe_inputs {
        // every probe input on two profile/kind combinations, static form and a fresh instance
        for _ in 0..2 {
            let profile = rng.below(4) as u8;
            let kind = rng.below(3) as u8;
            let b = if rng.chance(1, 2) { a } else { rng.usize_below(nprobe_inputs) };
            let api = if rng.chance(1, 2) { 0 } else { 1 };
            probe_calls.push(Call { profile, kind, api, fa: 0, fb: 0, a, b: if kind == 2 { b } else { 0 } });
        }
    }
    let traffic_calls = |rng: &mut Rng, k: usize| -> Vec<Call> {
        (0..k)
            .map(|_| {
                let exotic = rng.chance(1, 16);
                let a = if exotic { xstart + rng.usize_below(8) } else { tstart + rng.usize_below(ntraffic) };
                let _ = &a;
                let profile = if rng.chance(7, 8) { dominant } else { rng.below(4) as u8 };
                let kind = match rng.below(8) { 0 => 0, 7 => 2, _ => 1 };
                let b = if kind == 2 { tstart + rng.usize_below(ntraffic) } else { 0 };
                let api = if rng.chance(3, 4) { 0 } else { rng.below(API_FORMS.len() as u64) as u8 };
                let fa = if kind == 2 { rng.below(4) as u8 } else { rng.below(ARG_FORMS.len() as u64) as u8 };
                Call { profile, kind, api, fa, fb: 0, a, b }
            })
            .collect()
    };
    let mut t0 = probe_calls.clone();
    t0.extend(traffic_calls(rng, k));
    t0.extend(probe_calls.iter().cloned());
    let mut threads = vec![ThreadPlan { parent: 0, after: 0, calls: t0 }];
    if two_threads {
        threads.push(ThreadPlan { parent: 0, after: probe_calls.len(), calls: traffic_calls(rng, k / 2) });
    }
    Workload { pool, threads }
}

// ---------------------------------------------------------------- history analysis

/// Hash of the global order of invoke/return events: the interleaving at call granularity.
pub fn interleaving_hash(events: &[Event]) -> u64 {
    let mut pts: Vec<(u64, u8, usize, usize)> = vec![];
    for e in events {
        pts.push((e.invoke_seq, 0, e.thread, e.idx));
        pts.push((e.return_seq, 1, e.thread, e.idx));
    }
    pts.sort();
    let mut h = 0x1234_5678_9abc_def0u64;
    for (_, ph, t, i) in pts {
        h = hash_combine(h, ((ph as u64) << 48) ^ ((t as u64) << 24) ^ i as u64);
    }
    h
}

#[derive(Default, Clone, Debug)]
pub struct HistStats {
    /// pairs of calls from different threads whose [invoke, return] intervals overlap
    pub overlapping_pairs: u64,
    /// per profile: the first static-API use overlapped another static-API call of that profile
    pub first_use_overlaps: [u64; 4],
    /// a context switch happened between two calls touching the same profile
    pub nontrivial: bool,
}

pub fn analyse(events: &[Event]) -> HistStats {
    let mut st = HistStats::default();
    let mut evs: Vec<&Event> = events.iter().collect();
    evs.sort_by_key(|e| e.invoke_seq);
    for i in 0..evs.len() {
        for j in i + 1..evs.len() {
            if evs[j].invoke_seq > evs[i].return_seq {
                break;
            }
            if evs[i].thread != evs[j].thread {
                st.overlapping_pairs += 1;
            }
        }
    }
    for p in 0..4u8 {
        let stat: Vec<&&Event> = evs.iter().filter(|e| e.call.profile == p && e.call.api == 0).collect();
        if let Some(first_ret) = stat.iter().map(|e| e.return_seq).min() {
            // the call that completed first is (one of) the initialising calls; did another static
            // call of this profile start before it returned?
            let starters = stat.iter().filter(|e| e.invoke_seq < first_ret).count();
            if starters >= 2 {
                st.first_use_overlaps[p as usize] += 1;
            }
        }
    }
    // non-trivial: >= 2 threads made calls on a common profile and their calls are not serialised thread by thread
    let mut by_seq: Vec<&Event> = events.iter().collect();
    by_seq.sort_by_key(|e| e.return_seq);
    for p in 0..4u8 {
        let seq: Vec<usize> = by_seq.iter().filter(|e| e.call.profile == p).map(|e| e.thread).collect();
        let mut switches = 0;
        for w in seq.windows(2) {
            if w[0] != w[1] {
                switches += 1;
            }
        }
        let mut ts = seq.clone();
        ts.sort();
        ts.dedup();
        if ts.len() >= 2 && switches >= 1 {
            st.nontrivial = true;
        }
    }
    st
}
