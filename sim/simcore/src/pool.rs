//! Chunked worker pool: one fresh single-threaded OS process per fixed-size chunk of run
//! indices. Chunk boundaries depend on the index only, never on the number of jobs, and results
//! are merged in chunk order, so the outcome is identical at 1, 4 or 16 jobs.

use serde_json::{json, Value};
use std::collections::BTreeMap;
use std::path::{Path, PathBuf};
use std::process::{Child, Command, Stdio};
use std::time::{Duration, Instant};

pub struct ChunkResult {
    pub code: i32, // -9 = killed by the watchdog
    pub value: Value,
}

/// `mk(chunk_index, out_file)` builds the worker command. Chunks after the first chunk that
/// exits non-zero are not started (those already running are still collected, and ignored by
/// callers that merge "up to the first bad chunk").
pub fn run_chunks(
    nchunks: u64,
    jobs: usize,
    scratch: &Path,
    timeout: Duration,
    mk: &dyn Fn(u64, &Path) -> Command,
) -> Result<BTreeMap<u64, ChunkResult>, String> {
    std::fs::create_dir_all(scratch).map_err(|e| e.to_string())?;
    let mut next = 0u64;
    let mut running: Vec<(u64, Child, PathBuf, Instant)> = vec![];
    let mut results = BTreeMap::new();
    let mut first_bad: Option<u64> = None;
    // after a few workers have been killed by the watchdog there is no point in feeding it more:
    // the engine cannot run this tree (a hang outside the scheduler's control); the caller reports
    // the chunks that did not run as inconclusive
    let mut killed = 0u32;
    loop {
        while running.len() < jobs.max(1) && next < nchunks && first_bad.map(|b| next < b).unwrap_or(true) && killed < 3 {
            let of = scratch.join(format!("chunk-{}.json", next));
            // every worker runs under an address-space limit: a runaway worker must not take the
            // machine (and other checks) down with it
            let inner = mk(next, &of);
            let mut cmd = Command::new("sh");
            cmd.arg("-c").arg("ulimit -v 12000000; exec \"$0\" \"$@\"").arg(inner.get_program()).args(inner.get_args());
            for (k, v) in inner.get_envs() {
                match v {
                    Some(v) => {
                        cmd.env(k, v);
                    }
                    None => {
                        cmd.env_remove(k);
                    }
                }
            }
            cmd.stdout(Stdio::null()).env_remove("SHUTTLE_RANDOM_SEED");
            let child = cmd.spawn().map_err(|e| format!("cannot spawn worker: {}", e))?;
            running.push((next, child, of, Instant::now()));
            next += 1;
        }
        if running.is_empty() {
            break;
        }
        let mut i = 0;
        let mut progressed = false;
        while i < running.len() {
            let done = match running[i].1.try_wait() {
                Ok(Some(st)) => Some(st.code().unwrap_or(2)),
                Ok(None) => {
                    if running[i].3.elapsed() > timeout {
                        let _ = running[i].1.kill();
                        let _ = running[i].1.wait();
                        Some(-9)
                    } else {
                        None
                    }
                }
                Err(_) => Some(2),
            };
            if let Some(code) = done {
                let (n, _c, of, _) = running.remove(i);
                progressed = true;
                let value = if code == -9 {
                    killed += 1;
                    json!({"harness_error": "worker killed by the watchdog"})
                } else {
                    crate::evidence::read_json(&of).unwrap_or(json!({"harness_error": format!("worker for chunk {} wrote no result (exit {})", n, code)}))
                };
                let _ = std::fs::remove_file(&of);
                if code != 0 && code != -9 {
                    first_bad = Some(first_bad.map(|b| b.min(n)).unwrap_or(n));
                }
                results.insert(n, ChunkResult { code, value });
            } else {
                i += 1;
            }
        }
        if !progressed {
            std::thread::sleep(Duration::from_millis(2));
        }
    }
    Ok(results)
}

pub fn arg_val(args: &[String], name: &str) -> Option<String> {
    args.iter().position(|a| a == name).and_then(|i| args.get(i + 1)).cloned()
}

/// Adds `v[k]` (u64) into `tot[k]` for every key of `v` that holds a non-negative integer.
pub fn add_counts(tot: &mut BTreeMap<String, u64>, v: &Value) {
    if let Some(o) = v.as_object() {
        for (k, x) in o {
            if let Some(n) = x.as_u64() {
                *tot.entry(k.clone()).or_insert(0) += n;
            }
        }
    }
}
