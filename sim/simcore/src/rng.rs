/// SplitMix64 finaliser.
pub fn mix64(mut z: u64) -> u64 {
    z = (z ^ (z >> 30)).wrapping_mul(0xbf58476d1ce4e5b9);
    z = (z ^ (z >> 27)).wrapping_mul(0x94d049bb133111eb);
    z ^ (z >> 31)
}

/// SplitMix64 stream. One `Rng` per run, seeded from (VERIF_SEED, run index).
#[derive(Clone, Debug)]
pub struct Rng {
    s: u64,
}

impl Rng {
    pub fn new(seed: u64) -> Self {
        Rng { s: seed }
    }
    /// Independent stream for run `idx` under master seed `seed`, sub-stream `lane`.
    pub fn derive(seed: u64, idx: u64, lane: u64) -> Self {
        Rng::new(mix64(mix64(seed ^ 0x5eed_0000_0000_0000).wrapping_add(mix64(idx.wrapping_mul(0x9e3779b97f4a7c15) ^ lane.rotate_left(17)))))
    }
    pub fn next_u64(&mut self) -> u64 {
        self.s = self.s.wrapping_add(0x9e3779b97f4a7c15);
        mix64(self.s)
    }
    /// Uniform in 0..n (n > 0).
    pub fn below(&mut self, n: u64) -> u64 {
        debug_assert!(n > 0);
        // multiply-shift; bias is irrelevant here
        ((self.next_u64() as u128 * n as u128) >> 64) as u64
    }
    pub fn range(&mut self, lo: u64, hi_incl: u64) -> u64 {
        lo + self.below(hi_incl - lo + 1)
    }
    pub fn usize_below(&mut self, n: usize) -> usize {
        self.below(n as u64) as usize
    }
    pub fn chance(&mut self, num: u64, den: u64) -> bool {
        self.below(den) < num
    }
    pub fn pick<'a, T>(&mut self, xs: &'a [T]) -> &'a T {
        &xs[self.usize_below(xs.len())]
    }
}
