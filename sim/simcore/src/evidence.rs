//! Evidence and replay files. The evidence file is rewritten by every run of a check and
//! contains only numbers measured by that run.

use serde_json::{json, Map, Value};
use std::path::{Path, PathBuf};

pub struct Evidence {
    pub property_id: String,
    pub tier: String,
    pub seed: u64,
    pub level: String,
    pub coverage: Map<String, Value>,
    pub assumptions: Vec<String>,
    pub wall_s: f64,
    pub violations: u64,
    pub extra: Map<String, Value>,
}

impl Evidence {
    pub fn new(property_id: &str, tier: &str, seed: u64) -> Self {
        Evidence {
            property_id: property_id.to_string(),
            tier: tier.to_string(),
            seed,
            level: "exploration".to_string(),
            coverage: Map::new(),
            assumptions: vec![],
            wall_s: 0.0,
            violations: 0,
            extra: Map::new(),
        }
    }

    pub fn cov(&mut self, k: &str, v: Value) {
        self.coverage.insert(k.to_string(), v);
    }

    pub fn to_value(&self) -> Value {
        let mut m = Map::new();
        m.insert("property_id".into(), json!(self.property_id));
        m.insert("tier".into(), json!(self.tier));
        m.insert("seed".into(), json!(self.seed));
        m.insert("level".into(), json!(self.level));
        m.insert("coverage".into(), Value::Object(self.coverage.clone()));
        m.insert("assumptions".into(), json!(self.assumptions));
        m.insert("wall_s".into(), json!(self.wall_s));
        m.insert("violations".into(), json!(self.violations));
        for (k, v) in &self.extra {
            m.insert(k.clone(), v.clone());
        }
        Value::Object(m)
    }

    pub fn path(&self) -> PathBuf {
        crate::verif_dir().join("evidence").join(format!("{}.json", self.property_id))
    }

    pub fn write(&self) -> std::io::Result<PathBuf> {
        let p = self.path();
        write_json(&p, &self.to_value())?;
        Ok(p)
    }
}

pub fn write_json(p: &Path, v: &Value) -> std::io::Result<()> {
    if let Some(d) = p.parent() {
        std::fs::create_dir_all(d)?;
    }
    let tmp = p.with_extension("json.tmp");
    std::fs::write(&tmp, serde_json::to_string_pretty(v).unwrap() + "\n")?;
    std::fs::rename(&tmp, p)
}

pub fn read_json(p: &Path) -> Result<Value, String> {
    let s = std::fs::read_to_string(p).map_err(|e| format!("{}: {}", p.display(), e))?;
    serde_json::from_str(&s).map_err(|e| format!("{}: {}", p.display(), e))
}

pub fn replay_dir() -> PathBuf {
    crate::verif_dir().join("replays")
}

/// "" for /repo, "-alt-<hash>" when the check runs against another tree (VERIF_REPO), so that
/// concurrent checks of different trees do not overwrite each other's replay files.
pub fn replay_tag() -> String {
    match std::env::var("VERIF_TAG") {
        Ok(t) if !t.is_empty() && t != "main" => format!("-{}", t),
        _ => String::new(),
    }
}

/// Entries of /verif/known_findings.json that are *open* findings for `property`.
/// A finding is identified by its `key` string, which each checker compares with the key it
/// derives from a violation (specific input / call site / history), so a different violation
/// of the same property is still reported. `fixed` entries suppress nothing and are not returned.
pub fn known_findings(property: &str) -> Vec<(String, String)> {
    let p = crate::verif_dir().join("known_findings.json");
    let v = match read_json(&p) {
        Ok(v) => v,
        Err(_) => return vec![],
    };
    let mut out = vec![];
    if let Some(a) = v.get("findings").and_then(|x| x.as_array()) {
        for f in a {
            if f.get("property").and_then(|x| x.as_str()) == Some(property)
                && f.get("status").and_then(|x| x.as_str()).unwrap_or("open") == "open"
            {
                out.push((
                    f.get("key").and_then(|x| x.as_str()).unwrap_or("").to_string(),
                    f.get("what").and_then(|x| x.as_str()).unwrap_or("").to_string(),
                ));
            }
        }
    }
    out
}
