//! Shared pieces of the /verif simulators: one-integer PRNG, hashing that does
//! not depend on the process (no RandomState), evidence/replay JSON helpers.
//!
//! Rules kept throughout: every random choice derives from `VERIF_SEED` through
//! `Rng`; logging never draws from a PRNG and never reads a clock; wall time is
//! read only for the `wall_s` field of the evidence.

pub mod c16;
pub mod evidence;
pub mod pool;
pub mod rng;

pub use rng::{mix64, Rng};

/// FNV-1a 64 over bytes, then a SplitMix finaliser. Stable across processes.
pub fn hash_bytes(b: &[u8]) -> u64 {
    let mut h: u64 = 0xcbf29ce484222325;
    for &x in b {
        h ^= x as u64;
        h = h.wrapping_mul(0x100000001b3);
    }
    mix64(h)
}

pub fn hash_combine(a: u64, b: u64) -> u64 {
    mix64(a ^ b.rotate_left(29).wrapping_add(0x9e3779b97f4a7c15))
}

pub fn hex(b: &[u8]) -> String {
    let mut s = String::with_capacity(b.len() * 2);
    for x in b {
        s.push_str(&format!("{:02x}", x));
    }
    s
}

pub fn unhex(s: &str) -> Option<Vec<u8>> {
    if s.len() % 2 != 0 {
        return None;
    }
    (0..s.len() / 2)
        .map(|i| u8::from_str_radix(&s[2 * i..2 * i + 2], 16).ok())
        .collect()
}

/// `VERIF_SEED` (default fixed so that the unchanged tree always sees the same runs).
pub fn verif_seed() -> u64 {
    match std::env::var("VERIF_SEED") {
        Ok(v) => v.trim().parse::<u64>().unwrap_or_else(|_| hash_bytes(v.as_bytes()) >> 1),
        Err(_) => 20261003,
    }
}

pub fn verif_dir() -> std::path::PathBuf {
    std::env::var_os("VERIF_DIR").map(Into::into).unwrap_or_else(|| "/verif".into())
}
